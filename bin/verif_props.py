"""per-property configuration of the checks (harness package, test, budgets, evidence rule)"""

PROPS = {
    "C04": {
        "harness": "limsim", "test": "TestC04", "quick_s": 25, "thorough_s": 600, "batch": 100,
        "rule": "one evaluation = one simulated run of the real connlimit.ConnLimiter: a rapid-drawn configuration (1-4 sources, limit 0-5), "
                "a drawn sequence of arrive/finish/panic/step operations and, in fine mode, a drawn task choice at every mutex yield point; "
                "non-trivial = at least two requests were inside the protected handler at the same time; distinct = distinct run digests "
                "(hash of the exact sequence of scheduler steps and harness operations)",
        "technique": "deterministic simulation: seeded cooperative scheduling of real request goroutines at mutex granularity with handler-panic faults; in-handler invariant, exact coarse-mode admission oracle, porcupine linearizability of the fine-mode enter/leave history against a per-source counter, bounded-liveness refill check",
        "level_text": "seeded search over schedules, arrival/finish orders and handler-panic faults of the real ConnLimiter; every failure is minimised by rapid and replayable from its file; evidence is sampled, not exhaustive",
        "level_note": "trusted: the scheduler (simrt), the instrumenter (yield points only at mutex operations and go statements), rapid and porcupine; interleavings finer than mutex granularity are not explored here (C09's race mode covers unsynchronised accesses)",
        "assumptions": ["goroutine interleavings are explored at mutex-operation granularity (yield before every Lock, after every Unlock); "
                        "code between two yield points runs atomically", "net/http's per-connection recover is represented by the task's top-level recover"],
    },
}

PROPS["C03"] = {
    "harness": "limsim", "test": "TestC03", "quick_s": 30, "thorough_s": 900, "batch": 100,
    "rule": "one evaluation = one simulated history against the real ratelimit.TokenLimiter under the simulated clock: drawn rate set (1-3 periods), "
            "1-8 sources within capacity, 20-400 requests arranged in phases (burst at one instant, sustained traffic at 0.5x-20x the rate for up to 40 periods, "
            "exact pacing, mixed clock steps around every configured duration, idle gaps up to 100 days); oracle = exact-integer interval bound over all pairs of "
            "admitted requests per source and rate; non-trivial = at least two admissions and one rejection; distinct = hash of the admitted (source,time,amount) sequence",
    "technique": "deterministic simulation: seeded arrival histories over a simulated clock (time-driven entry-expiry as the fault), exact-integer interval-bound oracle over the recorded admission history",
    "level_text": "seeded search over arrival histories, rate configurations and clock steps of the real TokenLimiter with its TTL map; sampled, not exhaustive; failures minimised and replayable",
    "level_note": "trusted: holsterv4 frozen clock as the only time source (grep finds no other time read in non-test code), rapid; 'period/average' is read as Go does (a Duration divided by a count); no concurrency in this check (C09/C14 cover it)",
    "assumptions": ["all time reads of the limiter go through internal/holsterv4/clock", "only forward clock steps"],
}

PENDING = "check not built yet in this session (planned, see DESIGN.md section 4); not claimed until its harness exists"
NOT_APPLICABLE = {pid: PENDING for pid in ["C%02d" % i for i in range(1, 21)]}
NOT_APPLICABLE["C19"] = ("pure function of one request's RemoteAddr/Host/header to a token: no schedule, clock, fault, I/O or multi-party behaviour for a "
                         "simulation to decide; input generation alone would not be this technique (DESIGN.md section 5)")
