"""per-property configuration of the checks (harness package, test, budgets, evidence rule)"""

PROPS = {
    "C04": {
        "harness": "limsim", "test": "TestC04", "quick_s": 25, "thorough_s": 600, "batch": 100,
        "rule": "one evaluation = one simulated run of the real connlimit.ConnLimiter: a rapid-drawn configuration (1-4 sources, limit 0-5), "
                "a drawn sequence of arrive/finish/panic/step operations and, in fine mode, a drawn task choice at every mutex yield point; "
                "non-trivial = at least two requests were inside the protected handler at the same time; distinct = distinct run digests "
                "(hash of the exact sequence of scheduler steps and harness operations)",
        "technique": "deterministic simulation: seeded cooperative scheduling of real request goroutines at mutex granularity with handler-panic faults; in-handler invariant, exact coarse-mode admission oracle, porcupine linearizability of the fine-mode enter/leave history against a per-source counter, bounded-liveness refill check",
        "level_text": "seeded search over schedules, arrival/finish orders and handler-panic faults of the real ConnLimiter; every failure is minimised by rapid and replayable from its file; evidence is sampled, not exhaustive",
        "level_note": "trusted: the scheduler (simrt), the instrumenter (yield points only at mutex operations and go statements), rapid and porcupine; interleavings finer than mutex granularity are not explored here (C09's race mode covers unsynchronised accesses)",
        "assumptions": ["goroutine interleavings are explored at mutex-operation granularity (yield before every Lock, after every Unlock); "
                        "code between two yield points runs atomically", "net/http's per-connection recover is represented by the task's top-level recover"],
    },
}

PROPS["C03"] = {
    "harness": "limsim", "test": "TestC03", "quick_s": 30, "thorough_s": 900, "batch": 100,
    "rule": "one evaluation = one simulated history against the real ratelimit.TokenLimiter under the simulated clock: drawn rate set (1-3 periods), "
            "1-8 sources within capacity, 20-400 requests arranged in phases (burst at one instant, sustained traffic at 0.5x-20x the rate for up to 40 periods, "
            "exact pacing, mixed clock steps around every configured duration, idle gaps up to 100 days); oracle = exact-integer interval bound over all pairs of "
            "admitted requests per source and rate; non-trivial = at least two admissions and one rejection; distinct = hash of the admitted (source,time,amount) sequence",
    "technique": "deterministic simulation: seeded arrival histories over a simulated clock (time-driven entry-expiry as the fault), exact-integer interval-bound oracle over the recorded admission history",
    "level_text": "seeded search over arrival histories, rate configurations and clock steps of the real TokenLimiter with its TTL map; sampled, not exhaustive; failures minimised and replayable",
    "level_note": "trusted: holsterv4 frozen clock as the only time source (grep finds no other time read in non-test code), rapid; 'period/average' is read as Go does (a Duration divided by a count); no concurrency in this check (C09/C14 cover it)",
    "assumptions": ["all time reads of the limiter go through internal/holsterv4/clock", "only forward clock steps"],
}

PROPS["C13"] = {
    "harness": "limsim", "test": "TestC13", "quick_s": 30, "thorough_s": 900, "batch": 100,
    "rule": "one evaluation = one simulated history on two real TokenLimiters in lock-step under the simulated clock: limiter B receives the history of limiter A minus "
            "every refused request that is not the first access of its source at its instant; plus retry-after-advertised-delay probes (source silent, other sources and the "
            "clock proceed), idle-refill probes and amount>burst probes; non-trivial = at least one refused request was dropped from the twin and at least one request admitted; "
            "distinct = hash of the (source,time,amount,answer) sequence",
    "technique": "deterministic simulation: twin-run differential over seeded histories on a simulated clock (refused requests removed from the twin must change nothing), plus scheduled retry/idle probes at exact simulated instants",
    "level_text": "seeded search over histories, multi-rate configurations and clock steps of the real TokenLimiter; the differential oracle needs no model of the bucket arithmetic; sampled, not exhaustive",
    "level_note": "trusted: frozen clock as only time source, rapid; the twin argument assumes only that no quota can refill between two accesses at the same instant",
    "assumptions": ["only forward clock steps", "sources stay within capacity (C14 covers eviction)"],
}

PROPS["C14"] = {
    "harness": "limsim", "test": "TestC14", "quick_s": 30, "thorough_s": 900, "batch": 100,
    "rule": "one evaluation = one simulated run in one of several modes: rate-projection (shared TokenLimiter vs one limiter per source in lock-step on the simulated clock, sources within capacity), "
            "rate-eviction (capacity 1-4, up to 3x as many sources; model: each insertion into a full limiter forgets exactly the oldest tracked source; every access compared with a per-source twin that is "
            "reset when the model says the source was forgotten), conn-twin (shared ConnLimiter vs per-source ConnLimiter, same arrivals/finishes/panics), conn-fine (fine-grained schedules, porcupine with the "
            "model partitioned by source), rate-broken-sink (capacity 1-3, entries expire within the run, the caller's log sink breaks once at the n-th call of a drawn level and the request that was logging is lost; "
            "a twin limiter with a healthy logger gets the same requests and must go on answering alike); non-trivial = requests of different sources interleaved with a rejection / at least one eviction / two sources in flight at once / a request lost to a broken log sink; distinct = run digest",
    "technique": "deterministic simulation: projection (non-interference) differential against per-source twin limiters in lock-step on the simulated clock and scheduler; eviction model for over-capacity workloads; porcupine partitioned by source for fine-mode connection-limiter histories",
    "level_text": "seeded search over interleaved multi-source histories, capacities and schedules of the real TokenLimiter/ConnLimiter; sampled, not exhaustive",
    "level_note": "trusted: simrt, frozen clock, rapid, porcupine; the over-capacity workload keeps creation order equal to last-use order and accesses of different sources at least one second apart, so that 'nearest to expiry' is unambiguous at the ttl map's one-second granularity; the ranked regime assumes only that an entry's lifetime lies between one period and a hundred periods plus a hundred seconds (its period classes 1 h / 1000 h / 200 000 h are then ordered whatever the formula)",
    "assumptions": ["only forward clock steps", "over-capacity scenario spans < 5 simulated minutes with periods >= 1 min (no real expiry interferes)"],
}

CB_NOTE = ("trusted: simrt, instrumenter, frozen clock, rapid; the breaker state is observed through its public String() after every scheduler step; "
           "transitions into tripped are taken from observation (whether the condition held is C18's business), every other transition and every pass/refuse decision is predicted by the reference model")
PROPS["C05"] = {
    "harness": "cbsim", "test": "TestC05", "quick_s": 30, "thorough_s": 900, "batch": 50,
    "rule": "one evaluation = one simulated run of the real CircuitBreaker: drawn condition, fallback/recovery/check durations (1ms-10min), 5-120 operations (arrive, burst, complete with scripted status, "
            "clock advance around the configured durations incl. exactly at period ends, fine-mode scheduler steps); requests overlap in the handler across trips; oracle = reference state machine replayed over "
            "the decisions in critical-section order; non-trivial = the breaker tripped at least once and a request was in the handler; distinct = run digest",
    "technique": "deterministic simulation: seeded schedules, scripted response histories and clock advances against the real breaker; reference state-machine replay over decisions ordered by critical section (shield interval, standby pass-through, legal-edge monitor)",
    "level_text": "seeded search over response histories, clock advances, configurations and (fine mode) lock-granularity interleavings; sampled, not exhaustive; failures minimised and replayable",
    "level_note": CB_NOTE,
    "assumptions": ["only forward clock steps", "decisions exactly on the end of the fallback period are accepted either way (statement leaves the boundary open)"],
}
PROPS["C12"] = {
    "harness": "cbsim", "test": "TestC12", "quick_s": 30, "thorough_s": 900, "batch": 50,
    "rule": "same simulation as C05 with recovery-heavy arrival patterns (bursts at one instant, trickles, idle gaps, arrivals at drawn points of the ramp incl. its start and end); oracle = exact integer ramp inequality "
            "2(P+1)D < elapsed(N+1) per decision, recovery exit to standby, shield after a re-trip from recovering; non-trivial = at least two ramp decisions; distinct = run digest",
    "technique": "deterministic simulation: seeded arrival patterns over a simulated clock during recovery; exact-integer ramp inequality per decision in critical-section order against the reference model",
    "level_text": "seeded search over arrival patterns, recovery durations, outcome sequences and interleavings; sampled, not exhaustive",
    "level_note": CB_NOTE + "; recovery is taken to begin at the first request decided at or after the end of the fallback period",
    "assumptions": ["only forward clock steps", "equality (within 1e-9 relative) of the ramp inequality accepts both outcomes", "a decision exactly at the end of the recovery period may follow the ramp or exit to standby"],
}

PROPS["C18"] = {
    "harness": "cbsim", "test": "TestC18", "quick_s": 30, "thorough_s": 900, "batch": 50,
    "rule": "one evaluation = one simulated run of the real CircuitBreaker with a condition generated from the grammar (three metric functions, six comparisons, &&/|| nesting to depth 3, with and without parentheses), "
            "drawn fallback/recovery/check durations, 5-100 operations (requests with scripted status and latency = simulated time in the handler, overlapping completions, clock advances); oracle = own three-valued evaluator "
            "over the responses recorded since the last trip at every evaluation point (first completion strictly after previous evaluation + check period) plus exact side-effect counts at quiescence; "
            "non-trivial = at least one definite evaluation and one trip; distinct = run digest",
    "technique": "deterministic simulation: generated condition programs and scripted response histories on a simulated clock; independent three-valued (Kleene) evaluator as reference, side-effect tasks scheduled by the simulator and counted at quiescence",
    "level_text": "seeded search over condition expressions, response/latency histories, check periods and overlapping completions; unknown oracle answers are counted as inconclusive, never reported; sampled, not exhaustive",
    "level_note": CB_NOTE + "; the condition oracle runs in coarse mode (Record+check of one completion atomic); window handling: responses younger than half the public counter window are certainly counted, older than the window certainly not, in-between every cut-off is tried; latency atoms are unknown when any response is older than half the window; quantiles accept every rank convention with a 3% band",
    "assumptions": ["only forward clock steps", "a completion exactly on the check-period boundary ends condition checking for that run (counted as truncated)"],
}

PROPS["C17"] = {
    "harness": "countersim", "test": "TestC17", "quick_s": 20, "thorough_s": 600, "batch": 200,
    "rule": "one evaluation = one simulated history on a real RollingCounter or RatioCounter: drawn bucket count 1-20, resolution (1s, 1.5s, 2s, 2.5s, 7s, 1min, 1h, random whole and fractional >= 1s), epoch not aligned to the resolution, "
            "3-120 operations on a population of up to four counters (Inc/IncA/IncB, Count/Ratio reads, Reset, Clone with the clone kept and used later, Append of one counter to another, clock steps from sub-resolution to 50 windows); in one run of four the clock is a running one (time passes before individual clock reads of a call, up to and across slot boundaries) and calls occupy intervals; oracle = per-counter reference list with the two window sums as interval bounds; non-trivial = at least one read with a non-empty reference window; "
            "distinct = hash of the read results",
    "technique": "deterministic simulation restricted to its clock dimension: seeded increment/read histories over a simulated clock against a reference event list (window-sum bounds); no schedule or fault dimension exists for this property",
    "level_text": "seeded search over histories, bucket counts, resolutions and clock steps of the real counters; sampled, not exhaustive",
    "level_note": "trusted: simulated clock as only time source, rapid; boundaries are lenient (lower bound over increments strictly younger than (N-1)r, upper bound over increments not older than N*r)",
    "assumptions": ["only forward clock steps", "non-negative increments"],
}

RR_NOTE = ("trusted: simrt, instrumenter, rapid, porcupine; a server's identity is (scheme, host, path) as in the balancer's own comparison - URLs differing only in userinfo or query are the same server")
PROPS["C02"] = {
    "harness": "rrsim", "test": "TestC02", "quick_s": 30, "thorough_s": 900, "batch": 50,
    "rule": "one evaluation = one simulated run against the real RoundRobin, directly or through a Rebalancer whose meters are never ready, with or without sticky sessions: 3-40 operations drawn from upsert (new / existing / same server in another spelling / with and without weight), "
            "remove (member / unknown), NextServer, ServeHTTP (downstream handler optionally rewrites the URL it was handed in one of six ways; optionally with a raw affinity cookie), Servers, ServerWeight over a 13-URL universe; "
            "coarse mode: reference set model compared after every operation (membership, URL strings, weights, selection in positive-weight members, error for unservable pool, remove-unknown fails, added server selected within one rotation); "
            "fine mode: operations run as tasks interleaved at mutex granularity, invoke/return history checked with porcupine; non-trivial = at least one successful removal among >= 4 operations, or a fine-mode run with task switches; distinct = run digest",
    "technique": "deterministic simulation: seeded schedules of administration calls racing with requests; executable reference set model checked operation by operation (coarse) and porcupine linearizability of the recorded history (fine)",
    "level_text": "seeded search over operation histories, URL spellings, handler rewrites and interleavings of the real balancer/rebalancer; sampled, not exhaustive; failures minimised and replayable",
    "level_note": RR_NOTE,
    "assumptions": ["a new server added with an explicit weight 0 is not generated (statement silent)", "fine-mode histories are capped at 28 operations for the linearizability check"],
}

PROPS["C01"] = {
    "harness": "rrsim", "test": "TestC01", "quick_s": 30, "thorough_s": 900, "batch": 30,
    "rule": "one evaluation = one simulated run: 0-20 prior pool changes and selections, then a frozen pool of 1-6 servers with a drawn weight shape (equal, common factor, zeros, 1 vs 200-1500, primes, random), "
            "then 1-6 caller tasks making m*W+r selections through NextServer or ServeHTTP (directly or through a never-adjusting Rebalancer), in fine mode interleaved at mutex granularity; the combined sequence is ordered by the "
            "critical section of each selection; oracle = exact count of every server in every window of W consecutive selections; non-trivial = at least W selections over at least two servers; distinct = run digest",
    "technique": "deterministic simulation: seeded interleavings of concurrent callers at mutex granularity; exact sliding-window share oracle over the selection sequence ordered by critical section",
    "level_text": "seeded search over weight vectors, prior histories and caller interleavings of the real balancer; sampled, not exhaustive",
    "level_note": RR_NOTE + "; the order of concurrent selections is the order of their critical sections, recorded by the scheduler",
    "assumptions": ["at most 6000 selections per run"],
}

PROPS["C10"] = {
    "harness": "rrsim", "test": "TestC10", "quick_s": 30, "thorough_s": 900, "batch": 50,
    "rule": "one evaluation = one simulated history against the real Rebalancer over the real RoundRobin under the simulated clock: 2-6 servers with configured weights 1-5000 (0 via re-weight), back-off 1ms-1min, "
            "a scripted Meter per server (rating/readiness patterns: healthy, one/minority/majority/all bad, random, flapping, not ready, recovering) or the real default meter fed by simulated backend status codes, 10-200 operations "
            "(requests, requests one back-off apart, clock advances, rating changes, membership and configured-weight changes); oracle after every request: weight range, back-off spacing, immediate restore after admin calls, no outlier gains share under clear-cut ratings, "
            "outliers lose share within two opportunities, convergence to configured proportions within six adjustments of equal ratings; non-trivial = the rebalancer changed weights at least once; distinct = hash of the recorded history",
    "technique": "deterministic simulation: seeded rating/readiness fault scripts, membership changes and clock advances against the real rebalancer; invariant and bounded-progress oracles on the effective weights after every request (exact rational share comparison)",
    "level_text": "seeded search over rating histories, weight vectors, back-off durations and membership changes; sampled, not exhaustive",
    "level_note": RR_NOTE + "; direction and loss-of-share are only judged when ratings are clear-cut (strict minority rated >= 0.5, everyone else <= 0.05) so that no constant of the outlier-split rule is assumed; effective weight = weight of the server in the balancer beneath the rebalancer",
    "assumptions": ["only forward clock steps", "requests are sequential except for drawn pairs of one request overlapped by one administration call (removal or re-weighting), which run under the fine-grained scheduler; by draw the balancer beneath the rebalancer refuses a removal for the moment"],
}

PROPS["C11"] = {
    "harness": "rrsim", "test": "TestC11", "quick_s": 30, "thorough_s": 900, "batch": 50,
    "rule": "one evaluation = one simulated history of 1-3 client sessions against the real RoundRobin/Rebalancer with sticky sessions: drawn cookie codec (raw, hash with salt, AES-128/192/256 with and without ttl, fallback chains of depth up to 2), "
            "1-5 server URLs (port, userinfo, query, escaped and multi-byte paths; special classes ';' in the URL and '|' in the query), 4-60 operations: requests (the client stores and returns cookies the way net/http parses and writes them), "
            "cookie corruption faults (truncate, bit flip, base64 alphabet, case, append, empty, minted under another key/salt, dropped), pool changes (remove, re-add, re-weight incl. 0), clock advances around the ttl; "
            "oracle = per-session model (server the cookie was issued for, mint time); non-trivial = at least two pinned requests and one rebalanced one; distinct = hash of the reached-server sequence",
    "technique": "deterministic simulation: seeded session histories with stored-cookie corruption faults, pool changes and clock advances against the real sticky-session code; per-session reference model",
    "level_text": "seeded search over codecs, URL forms, cookie corruptions, pool changes and clock steps; sampled, not exhaustive",
    "level_note": RR_NOTE + "; expiry within one second of the boundary accepts both outcomes; an altered cookie that is accepted is from then on required to keep naming the same member",
    "assumptions": ["only forward clock steps", "the client is a well-behaved HTTP client (cookie values pass through net/http's Set-Cookie writer and Cookie parser)"],
}

BUF_NOTE = ("trusted: rapid; the multibuf dependency runs as a scratch copy whose temp-file creation and file writes are routed through tools/simfs (no other change); "
            "no concurrency in these checks (the buffer has no shared state)")
BUF_RULE = ("one evaluation = one simulated run of 1-4 exchanges through the real buffer.Buffer: drawn memory thresholds (1 B-64 KiB) and maxima (0 = unlimited, below/equal/above the threshold) for request and response, "
            "optional retry expression generated from the grammar, request bodies sized around the thresholds (multi-megabyte in the thorough tier), declared or chunked framing, client body reader with drawn short reads, "
            "per-attempt handler scripts (bytes read, in-place rewrite of the request, status incl. none, headers, body in up to 20 writes), and in a quarter of the exchanges one injected fault "
            "(body reader error / net error / timeout at a drawn offset, with and without cancelled context; temp dir missing; temp-file creation error; ENOSPC after a drawn number of bytes, with and without torn write); ")
PROPS["C06"] = {
    "harness": "bufsim", "test": "TestC06", "quick_s": 30, "thorough_s": 900, "batch": 50, "multibuf": True,
    "rule": BUF_RULE + "oracle = on every invocation method, URL, headers, declared length, no chunked encoding, body bytes from offset 0 to EOF at the true length; after a reader fault an error status and no invocation; non-trivial = a retry or a spill to disk happened; distinct = hash of (attempts, status, sizes)",
    "technique": "deterministic simulation: seeded request/handler scripts with injected reader, context and disk faults at drawn byte offsets; per-attempt byte/field equality oracle",
    "level_text": "seeded search over body sizes, framings, thresholds, handler behaviours and fault positions; sampled, not exhaustive; failures minimised and replayable",
    "level_note": BUF_NOTE, "assumptions": ["request bodies up to 3 MiB"],
}
PROPS["C07"] = {
    "harness": "bufsim", "test": "TestC07", "quick_s": 30, "thorough_s": 900, "batch": 50, "multibuf": True,
    "rule": BUF_RULE + "oracle = own evaluator of the retry expression decides the number of invocations (cap 11); the strict client recorder must see exactly one WriteHeader with the final attempt's status (200 if none), its headers and exactly its attempt-tagged body bytes; non-trivial = at least one retry; distinct = hash of (attempts, status, sizes)",
    "technique": "deterministic simulation: generated retry programs and per-attempt response scripts against the real retry loop; independent expression evaluator and attempt-tagged payload oracle at a strict net/http-like client writer",
    "level_text": "seeded search over retry expressions, status sequences, header sets, body sizes and write chunkings; sampled, not exhaustive",
    "level_note": BUF_NOTE + "; an attempt that chose no status may be seen by the retry expression as 200 or as 'no code' (both invocation counts accepted)", "assumptions": ["handlers write no body for HEAD/204/304 in this check (C15 covers those that do)"],
}
PROPS["C15"] = {
    "harness": "bufsim", "test": "TestC15", "quick_s": 30, "thorough_s": 900, "batch": 50, "multibuf": True,
    "rule": BUF_RULE + "plus handlers that write a body for HEAD/204/304, Content-Length: 0 and gRPC-status responses; oracle = 413 and no invocation for a request over the maximum, error status and none of its tagged bytes for a response over the maximum, and the process temp dir listed empty after every exchange; non-trivial = a spill or an over-limit body occurred; distinct = hash of (attempts, status, sizes)",
    "technique": "deterministic simulation: seeded size/threshold/fault scenarios over a simulated disk (temp dir listing as the durable-state oracle, ENOSPC/torn-write/creation faults from the run's seed)",
    "level_text": "seeded search over sizes around both limits, framings, response kinds, retries and disk faults; sampled, not exhaustive",
    "level_note": BUF_NOTE, "assumptions": ["temp files are recognised by multibuf's 'temp-multibuf-' prefix in the process's private TMPDIR"],
}

PROPS["C09"] = {
    "harness": "racesim", "test": "TestC09", "quick_s": 40, "thorough_s": 1200, "batch": 25, "race": True, "shrinktime": "60s", "probe_runs": 30,
    "rule": "one evaluation = one simulated run under the Go race detector: a drawn target (connlimit, ratelimit, roundrobin, rebalancer, cbreaker, RTMetrics used directly, trace, or a stack of 2-6 middlewares over a rebalancer), "
            "2-6 pre-spawned tasks with 1-5 operations each (ServeHTTP from several sources with scripted statuses; UpsertServer/RemoveServer/ServerWeight/Servers/NextServer; Record and every RTMetrics read), fine scheduling at every mutex operation, "
            "clock ticks between steps; oracle = no new race report; non-trivial = at least two task switches; distinct = run digest (exact schedule)",
    "technique": "deterministic simulation under the race detector: seeded choice of the order of critical sections with the scheduler's own task->coordinator synchronisation hidden from the detector, so that a report means two accesses unordered by oxy's own locks in a legal lock order; reports are per run and replayable",
    "level_text": "seeded search over lock orders and operation mixes; a race is only found if both accesses execute in the sampled run; sampled, not exhaustive",
    "level_note": "trusted: Go race detector (runtime.RaceDisable semantics, GORACE flags), simrt's hand-off protocol (the coordinator never acquires from a task), the lock-free clock shim added to the scratch copy; the number of reports of one run may vary by one, the verdict is 'at least one'; CircuitBreaker.String() is not called concurrently (log helper, not an inspection call)",
    "assumptions": ["lost updates are checked for RTMetrics (exact counts audited after the run); for the other middlewares the behavioural checks C01-C04, C14 play that role", "the trace writer is the caller's and is mutex-protected"],
}

NET_NOTE = ("trusted: rapid; the in-memory transport of the harness; net/http's server, Transport and ReverseProxy run as real code with their own goroutines, which the simulator does not schedule: each exchange is one causal chain "
            "and every fault is tied to a position in the byte stream, so the observable outcome is interleaving-independent (determinism probe re-checks this on every run); one real 25 ms timer remains (response-header timeout)")
PROPS["C08"] = {
    "harness": "netsim", "test": "TestC08", "quick_s": 30, "thorough_s": 600, "batch": 50, "cpu": 4, "workers": 8,
    "rule": "one evaluation = one exchange: raw request bytes written by a simulated client (targets with escaped slashes in both hex cases, spaces, multi-byte escapes, ';', '+', '//', dot segments, ':' '@', query forms; Host with/without port and IPv6; header sets with repeated and empty end-to-end headers, "
            "hop-by-hop headers, Connection naming ordinary and forwarding headers, upstream-supplied X-Forwarded-*/X-Real-Ip) from a peer address of every form (IPv4, IPv6, IPv6 with zone), TLS flag and host pass-through both ways, through a real net/http server and forward.New to a "
            "scripted byte-level backend on the simulated transport; oracle = byte-level comparison of what the backend received and what the client received; non-trivial = at least two client headers; distinct = hash of the bytes at the backend and the response head at the client",
    "technique": "deterministic simulation restricted to its transport dimension: seeded inputs and configurations observed as bytes on a simulated backend connection (peer-address forms and TLS flag that real sockets here cannot produce); this property has no schedule or fault dimension",
    "level_text": "seeded input/configuration exploration over the simulated transport; sampled, not exhaustive",
    "level_note": NET_NOTE + "; 'TE: trailers' and an empty query ('/p?') are not generated (Go's ReverseProxy treats them specially by design); protocol-upgrade handshakes are generated and declined by the backend, with 'Connection: Upgrade' and 'Upgrade' allowed through as the reverse proxy passes them on by design; a forwarding header that the client itself names in Connection may or may not arrive",
    "assumptions": ["HTTP/1.1 client", "TLS is represented by the request's TLS field as set by a TLS-terminating listener"],
}

PROPS["C16"] = {
    "harness": "netsim", "test": "TestC16", "quick_s": 40, "thorough_s": 900, "batch": 40, "cpu": 4, "workers": 8,
    "rule": "one evaluation = one exchange through a real net/http server, forward.StateListener and forward.New to a scripted byte-level backend on the simulated transport: backend status 200-599, header sets, bodies 0 B-300 KiB (MiB in the thorough tier), fixed length or chunked with drawn chunk sizes; "
            "in two thirds of the exchanges one fault: dial refused, dial timeout, close/reset with 0 bytes sent, close/reset at a drawn byte of the head, garbage head, close/reset at a drawn byte of the body stream, response-header timeout (stalled backend), client gone while the backend is silent, client gone mid-body, deadline on the request context; GET or POST (fixed length or chunked request body); for fault-free POSTs with a large response the order of the transport's last read of the request body and the start of the response is imposed either way (fault kind request-probe-after-response-start); request targets in authority form, absolute form and //path are judged by the last clause only; "
            "oracle = outcome class per fault (exact relay, 502, 504, 502|504, 502|500, 499 recorded, strict prefix + broken connection), no hang, no handler panic reaching the server, exactly one connected and one disconnected notification, both for one URL; non-trivial = a fault or a non-empty body; distinct = hash of (status, size, fault, position)",
    "technique": "deterministic simulation of the two connections of a reverse proxy: seeded backend responses with connection faults injected at drawn byte offsets of the response stream, dial faults and client departures; outcome-class and notification-pairing oracle",
    "level_text": "seeded search over responses and fault positions; fault kinds enumerated, positions sampled; not exhaustive",
    "level_note": NET_NOTE,
    "assumptions": ["HTTP/1.1, one exchange per connection", "hang limit 15 s real time per exchange"],
}

PROPS["C20"] = {
    "harness": "stacksim", "test": "TestC20", "quick_s": 30, "thorough_s": 600, "batch": 50,
    "rule": "one evaluation = one simulated run: a random stack (depth 1-6) over {stream, trace, connlimit, ratelimit, cbreaker, roundrobin, rebalancer, buffer} around a scripted innermost handler (status explicit or implicit, multi-valued headers, 0-4 body chunks with Flush between, or Hijack); "
            "in half of the runs exactly one layer is driven into its intervening state by the simulator (connection limiter filled by requests parked inside the handler, bucket drained at one instant, breaker tripped by a served history of 502s plus clock, pool emptied, request body over the buffer maximum); "
            "oracle = differential against the bare handler for non-intervening runs (one invocation, same status, headers, body, flush points, hijacked bytes; Flusher/Hijacker reachable) and documented status + body + no invocation for intervening runs; non-trivial = depth >= 2; distinct = run digest",
    "technique": "deterministic simulation: generated middleware compositions and handler behaviours; intervening states produced by the simulator (parked in-flight requests, simulated clock, served histories); differential oracle against the bare handler",
    "level_text": "seeded search over composition order/depth, handler behaviours and which layer intervenes; sampled, not exhaustive",
    "level_note": "trusted: simrt, rapid; the client side is a strict in-memory ResponseWriter with Flusher/Hijacker/CloseNotifier (flush boundaries and the hijacked connection are observed at that writer, not on a wire)",
    "assumptions": ["flush points are not compared when a buffer is in the stack (it buffers by design)"],
}

NOT_APPLICABLE = {}
NOT_APPLICABLE["C19"] = ("pure function of one request's RemoteAddr/Host/header to a token: no schedule, clock, fault, I/O or multi-party behaviour for a "
                         "simulation to decide; input generation alone would not be this technique (DESIGN.md section 5)")
