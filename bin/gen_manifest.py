#!/usr/bin/env python3
"""Regenerates /verif/MANIFEST.json from bin/verif_props.py (claimed checks) and the not_applicable table below."""
import json, os, sys
VERIF = os.path.dirname(os.path.dirname(os.path.abspath(__file__)))
sys.path.insert(0, os.path.join(VERIF, "bin"))
from verif_props import PROPS, NOT_APPLICABLE

ALL = ["C%02d" % i for i in range(1, 21)]
checks = []
for pid in ALL:
    if pid not in PROPS:
        continue
    p = PROPS[pid]
    checks.append({
        "property_id": pid,
        "quick_cmd": "bin/verifctl check %s --tier quick" % pid,
        "thorough_cmd": "bin/verifctl check %s --tier thorough" % pid,
        "evidence_file": "/verif/evidence/%s.json" % pid,
        "replay_cmd_template": "bin/verifctl replay {path}",
        "engine": "oxy-dst",
        "level_claimed": {"category": "exploration", "text": p["level_text"], "design_ref": p.get("design_ref", "DESIGN.md section 4, " + pid)},
        "level_note": p["level_note"],
        "technique": p["technique"],
    })
na = [{"property_id": pid, "reason": NOT_APPLICABLE[pid]} for pid in ALL if pid not in PROPS]
missing = [pid for pid in ALL if pid not in PROPS and pid not in NOT_APPLICABLE]
assert not missing, missing
m = {
    "version": 1,
    "setup_cmd": "bin/verifctl build",
    "hooks": {
        "guard": "verif",
        "enable": "none committed to /repo: every check rsyncs the current /repo working tree to a scratch copy under /var/tmp and generates the "
                  "instrumentation there (tools/instrument rewrites X.Lock()/Unlock()/RLock()/RUnlock() and go statements of the non-test code into "
                  "calls of the simulation scheduler; harness packages are dropped in as zzverif/...); /repo itself is built unmodified by everything else",
        "baseline_off_cmd": "cd /repo && GOFLAGS=-mod=mod GOPROXY=off go test -vet=off -count=1 -timeout 25m ./...",
        "source_commits": [],
        "add_only": True,
    },
    "engines": [{
        "name": "oxy-dst", "path": "/verif/bin/verifctl", "serves_properties": [c["property_id"] for c in checks],
        "kind_free_text": "deterministic simulation with fault injection: cooperative seeded scheduler over the real middlewares (yield at every mutex "
                          "operation), simulated clock/transport/disk, rapid v1.3.0 as the single choice source (shrinking, replay files), porcupine for "
                          "fine-mode histories, happens-before race mode under -race",
    }],
    "checks": checks,
    "notes": "See DESIGN.md. Exit 0 = held on everything explored; 1 = VIOLATION line with a replay file; 2 = machinery failure (build, watchdog, determinism probe). "
             "known_findings.json lists genuine defects (fixed: entries suppress nothing).",
    "not_applicable": na,
}
json.dump(m, open(os.path.join(VERIF, "MANIFEST.json"), "w"), indent=1)
print("checks:", len(checks), "not_applicable:", len(na))
