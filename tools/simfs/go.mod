module verif.local/simfs

go 1.23
