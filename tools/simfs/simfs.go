// Package simfs is the simulated-disk seam of the buffer checks. verifctl
// rewrites a scratch copy of github.com/mailgun/multibuf so that its temp-file
// creation and file writes go through here; the harness arms faults from the
// run's seed (never from a clock or a global RNG).
package simfs

import (
	"errors"
	"io"
	"io/ioutil"
	"os"
	"syscall"
)

var (
	// TempFileFailIn: the n-th TempFile call from now fails (1 = the next one); 0 = never.
	TempFileFailIn int
	// WriteBudget: bytes that may still be written to spill files before the disk is "full"; < 0 = unlimited.
	WriteBudget int64 = -1
	// ShortWrite: when the budget runs out inside a write, write the part that fits (torn write) before failing.
	ShortWrite bool

	// counters of what actually happened
	TempFiles       int
	TempFileFaults  int
	WriteFaults     int
	BytesWritten    int64
	ErrNoSpace      = &os.PathError{Op: "write", Path: "(simulated disk)", Err: syscall.ENOSPC}
	errTempFileFail = errors.New("simulated: cannot create temporary file")
)

// Reset disarms everything and zeroes the counters.
func Reset() {
	TempFileFailIn, WriteBudget, ShortWrite = 0, -1, false
	TempFiles, TempFileFaults, WriteFaults, BytesWritten = 0, 0, 0, 0
}

// TempFile replaces ioutil.TempFile.
func TempFile(dir, prefix string) (*os.File, error) {
	if TempFileFailIn > 0 {
		TempFileFailIn--
		if TempFileFailIn == 0 {
			TempFileFaults++
			return nil, errTempFileFail
		}
	}
	TempFiles++
	return ioutil.TempFile(dir, prefix)
}

// Write replaces f.Write(p).
func Write(f *os.File, p []byte) (int, error) {
	if WriteBudget >= 0 && int64(len(p)) > WriteBudget {
		WriteFaults++
		n := 0
		if ShortWrite && WriteBudget > 0 {
			n, _ = f.Write(p[:WriteBudget])
			BytesWritten += int64(n)
		}
		WriteBudget = 0
		return n, ErrNoSpace
	}
	n, err := f.Write(p)
	BytesWritten += int64(n)
	if WriteBudget >= 0 {
		WriteBudget -= int64(n)
	}
	return n, err
}

type fileWriter struct{ f *os.File }

func (w fileWriter) Write(p []byte) (int, error) { return Write(w.f, p) }

// Copy replaces io.Copy(file, src).
func Copy(dst *os.File, src io.Reader) (int64, error) {
	return io.Copy(fileWriter{dst}, src)
}
