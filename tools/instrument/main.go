// Command instrument rewrites a scratch copy of vulcand/oxy so that every
// mutex operation and every go statement of the non-test code becomes a yield
// point of the simulation scheduler (package zzverif/simrt inside the copy).
//
//	X.Lock()          -> simrt.Lock(&X)       (also as the call of a defer)
//	X.Unlock()        -> simrt.Unlock(&X)
//	X.RLock()         -> simrt.RLock(&X)
//	X.RUnlock()       -> simrt.RUnlock(&X)
//	go f(args)        -> simrt.Go(func() { f(args) })
//
// Nothing else is touched. Usage: instrument [-multibuf] <root-of-copy>
// Prints one line per rewritten site and a JSON summary on the last line.
package main

import (
	"bytes"
	"encoding/json"
	"flag"
	"fmt"
	"go/ast"
	"go/format"
	"go/parser"
	"go/token"
	"os"
	"path/filepath"
	"strconv"
	"strings"
)

const simrtPath = "github.com/vulcand/oxy/v2/zzverif/simrt"

var lockFns = map[string]string{"Lock": "Lock", "Unlock": "Unlock", "RLock": "RLock", "RUnlock": "RUnlock"}

type summary struct {
	Files   int            `json:"files"`
	Sites   map[string]int `json:"sites"`
	Skipped []string       `json:"skipped"`
}

func addressable(e ast.Expr) bool {
	switch x := e.(type) {
	case *ast.Ident:
		return true
	case *ast.SelectorExpr:
		return addressable(x.X)
	case *ast.ParenExpr:
		return addressable(x.X)
	case *ast.StarExpr:
		return true
	case *ast.IndexExpr:
		return addressable(x.X)
	}
	return false
}

// lockCall returns the replacement for a call X.Lock() etc, or nil.
func lockCall(c *ast.CallExpr, pos string, sum *summary) *ast.CallExpr {
	if len(c.Args) != 0 {
		return nil
	}
	sel, ok := c.Fun.(*ast.SelectorExpr)
	if !ok {
		return nil
	}
	fn, ok := lockFns[sel.Sel.Name]
	if !ok {
		return nil
	}
	if !addressable(sel.X) {
		sum.Skipped = append(sum.Skipped, pos+": receiver of "+sel.Sel.Name+" is not addressable")
		return nil
	}
	sum.Sites[fn]++
	return &ast.CallExpr{
		Fun:  &ast.SelectorExpr{X: ast.NewIdent("simrt"), Sel: ast.NewIdent(fn)},
		Args: []ast.Expr{&ast.UnaryExpr{Op: token.AND, X: sel.X}},
	}
}

func rewriteStmt(fset *token.FileSet, st ast.Stmt, sum *summary) (ast.Stmt, bool) {
	switch s := st.(type) {
	case *ast.ExprStmt:
		if c, ok := s.X.(*ast.CallExpr); ok {
			if r := lockCall(c, fset.Position(c.Pos()).String(), sum); r != nil {
				s.X = r
				return s, true
			}
		}
	case *ast.DeferStmt:
		if r := lockCall(s.Call, fset.Position(s.Pos()).String(), sum); r != nil {
			s.Call = r
			return s, true
		}
	case *ast.GoStmt:
		sum.Sites["Go"]++
		var body *ast.BlockStmt
		if fl, ok := s.Call.Fun.(*ast.FuncLit); ok && len(s.Call.Args) == 0 && len(fl.Type.Params.List) == 0 {
			body = fl.Body
		} else {
			body = &ast.BlockStmt{List: []ast.Stmt{&ast.ExprStmt{X: s.Call}}}
		}
		return &ast.ExprStmt{X: &ast.CallExpr{
			Fun:  &ast.SelectorExpr{X: ast.NewIdent("simrt"), Sel: ast.NewIdent("Go")},
			Args: []ast.Expr{&ast.FuncLit{Type: &ast.FuncType{Params: &ast.FieldList{}}, Body: body}},
		}}, true
	}
	return st, false
}

type visitor struct {
	fset    *token.FileSet
	sum     *summary
	changed bool
}

func (v *visitor) list(l []ast.Stmt) {
	for i, st := range l {
		if n, ok := rewriteStmt(v.fset, st, v.sum); ok {
			l[i] = n
			v.changed = true
		}
	}
}

func (v *visitor) Visit(n ast.Node) ast.Visitor {
	switch x := n.(type) {
	case *ast.BlockStmt:
		v.list(x.List)
	case *ast.CaseClause:
		v.list(x.Body)
	case *ast.CommClause:
		v.list(x.Body)
	case *ast.LabeledStmt:
		if n, ok := rewriteStmt(v.fset, x.Stmt, v.sum); ok {
			x.Stmt = n
			v.changed = true
		}
	}
	return v
}

func addImport(f *ast.File, name, path string) {
	spec := &ast.ImportSpec{Name: ast.NewIdent(name), Path: &ast.BasicLit{Kind: token.STRING, Value: strconv.Quote(path)}}
	decl := &ast.GenDecl{Tok: token.IMPORT, Specs: []ast.Spec{spec}}
	f.Decls = append([]ast.Decl{decl}, f.Decls...)
}

func processFile(path string, sum *summary) error {
	fset := token.NewFileSet()
	f, err := parser.ParseFile(fset, path, nil, parser.ParseComments)
	if err != nil {
		return err
	}
	v := &visitor{fset: fset, sum: sum}
	ast.Walk(v, f)
	if !v.changed {
		return nil
	}
	addImport(f, "simrt", simrtPath)
	var buf bytes.Buffer
	if err := format.Node(&buf, fset, f); err != nil {
		return err
	}
	sum.Files++
	return os.WriteFile(path, buf.Bytes(), 0o644)
}

func main() {
	flag.Parse()
	if flag.NArg() != 1 {
		fmt.Fprintln(os.Stderr, "usage: instrument <root>")
		os.Exit(2)
	}
	root := flag.Arg(0)
	sum := &summary{Sites: map[string]int{}}
	skipDirs := map[string]bool{
		filepath.Join(root, "zzverif"):                        true,
		filepath.Join(root, "testutils"):                      true,
		filepath.Join(root, "internal", "holsterv4", "clock"): true,
		filepath.Join(root, ".git"):                           true,
	}
	err := filepath.Walk(root, func(p string, info os.FileInfo, err error) error {
		if err != nil {
			return err
		}
		if info.IsDir() {
			if skipDirs[p] {
				return filepath.SkipDir
			}
			return nil
		}
		if !strings.HasSuffix(p, ".go") || strings.HasSuffix(p, "_test.go") {
			return nil
		}
		return processFile(p, sum)
	})
	if err != nil {
		fmt.Fprintln(os.Stderr, "instrument:", err)
		os.Exit(2)
	}
	out, _ := json.Marshal(sum)
	fmt.Println(string(out))
}
