module verif/instrument

go 1.23
