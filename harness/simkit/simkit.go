// Package simkit is the part of the harness shared by all simulation packages:
// the budgeted rapid loop, per-run statistics, evidence output, known-finding
// switches and the failure convention the driver (bin/verifctl) understands.
package simkit

import (
	"encoding/binary"
	"encoding/json"
	"flag"
	"fmt"
	"os"
	"runtime"
	"sort"
	"strconv"
	"strings"
	"testing"
	"time"

	"github.com/vulcand/oxy/v2/zzverif/simrt"
	"pgregory.net/rapid"
)

// Run collects what one simulated execution covered.
type Run struct {
	T          *rapid.T
	nontrivial bool
	faults     map[string]int
	probes     map[string]int
	simTime    time.Duration
	steps      uint64
	decisions  uint64
	switches   uint64
	digest     uint64
	hasDigest  bool
	sample     func() any
	inconcl    int
	states     []uint64
}

// Nontrivial marks the run as non-trivial by the property's stated rule.
func (r *Run) Nontrivial() { r.nontrivial = true }

// Fault counts an injected fault that actually fired.
func (r *Run) Fault(kind string) { r.faults[kind]++ }

// Probe counts a rare condition that was actually reached.
func (r *Run) Probe(name string) { r.probes[name]++ }

// ProbeN counts a probe n times.
func (r *Run) ProbeN(name string, n int) {
	if n > 0 {
		r.probes[name] += n
	}
}

// SimTime adds simulated time covered.
func (r *Run) SimTime(d time.Duration) { r.simTime += d }

// Inconclusive counts a three-valued oracle answer "unknown".
func (r *Run) Inconclusive() { r.inconcl++ }

// State records an abstract state reached (for the distinct-states measure).
func (r *Run) State(h uint64) { r.states = append(r.states, h) }

// FromSim copies scheduler statistics and the digest of a finished simulation.
func (r *Run) FromSim(s *simrt.Sim) {
	r.steps += s.Steps
	r.decisions += s.Decisions
	r.switches += s.Switches
	r.SetDigest(s.Digest())
}

// SetDigest sets the identity of the run for the distinct count.
func (r *Run) SetDigest(d uint64) { r.digest, r.hasDigest = d, true }

// Sample registers a lazily built description of the run for the evidence file.
func (r *Run) Sample(f func() any) { r.sample = f }

// Chooser adapts the rapid source to the scheduler.
func (r *Run) Chooser() simrt.Chooser {
	t := r.T
	return func(n int, label string) int {
		if n <= 1 {
			return 0
		}
		return rapid.IntRange(0, n-1).Draw(t, label)
	}
}

// Fail reports a violation: details go to the log (kept in the fail file), the
// fatal message is only the kind so that shrinking stays within one class.
func (r *Run) Fail(kind string, format string, args ...any) {
	r.T.Helper()
	r.T.Logf("VERIF-DETAIL kind=%s: %s", kind, fmt.Sprintf(format, args...))
	if os.Getenv("VERIF_DEBUG") != "" { // every failing run, not only rapid's final logged one (for chasing flakiness in the harness)
		fmt.Fprintf(os.Stderr, "VERIF-DEBUG kind=%s: %.1500s\n", kind, fmt.Sprintf(format, args...))
	} else if !firstFailShown {
		// the first failing run of the process, before any shrinking: should rapid later be unable to reproduce the
		// failure (non-determinism in the harness), this line is all that is left of it
		firstFailShown = true
		fmt.Fprintf(os.Stderr, "VERIF-FIRSTFAIL kind=%s: %.1500s\n", kind, fmt.Sprintf(format, args...))
	}
	r.T.Fatalf("VERIF-FAIL kind=%s", kind)
}

// Tracef logs a line of the human-readable trace (only materialised by rapid on
// the final run of a failing case, or with -rapid.v).
func (r *Run) Tracef(format string, args ...any) { r.T.Logf(format, args...) }

type stats struct {
	Property     string         `json:"property"`
	Worker       int            `json:"worker"`
	Seed         uint64         `json:"seed"`
	Runs         int            `json:"runs"`
	Nontrivial   int            `json:"nontrivial"`
	Distinct     int            `json:"distinct_nontrivial_local"`
	Capped       bool           `json:"digests_capped"`
	Steps        uint64         `json:"steps"`
	Decisions    uint64         `json:"decisions"`
	Switches     uint64         `json:"switches"`
	SimTimeS     float64        `json:"sim_time_s"`
	Faults       map[string]int `json:"faults"`
	Probes       map[string]int `json:"probes"`
	Inconclusive int            `json:"inconclusive"`
	States       int            `json:"distinct_states_local"`
	Samples      []any          `json:"samples"`
	Batches      int            `json:"batches"`
	WallS        float64        `json:"wall_s"`
	Failed       bool           `json:"failed"`
	RaceBuild    bool           `json:"race_build"`
	Components   any            `json:"components,omitempty"`
}

var firstFailShown bool

const digestCap = 400000

var (
	cur      *stats
	digests  map[uint64]struct{}
	stateSet map[uint64]struct{}
)

func envInt(name string, def int64) int64 {
	v := os.Getenv(name)
	if v == "" {
		return def
	}
	n, err := strconv.ParseInt(v, 10, 64)
	if err != nil {
		fmt.Fprintf(os.Stderr, "VERIF-HARNESS: bad %s=%q\n", name, v)
		os.Exit(2)
	}
	return n
}

var knownOpen map[string]bool

// KnownOpen reports whether the named generator class belongs to an open known
// finding and is therefore excluded from the search (the driver runs a targeted
// reproduction of it separately, with VERIF_ONLY=<trigger>).
func KnownOpen(trigger string) bool {
	if knownOpen == nil {
		knownOpen = map[string]bool{}
		for _, k := range strings.Split(os.Getenv("VERIF_KNOWN_OPEN"), ",") {
			if k != "" {
				knownOpen[k] = true
			}
		}
	}
	return knownOpen[trigger]
}

// Only returns the trigger class a targeted reproduction run is restricted to.
func Only() string { return os.Getenv("VERIF_ONLY") }

// Thorough reports the tier.
func Thorough() bool { return os.Getenv("VERIF_TIER") == "thorough" }

// splitmix64
func mix(x uint64) uint64 {
	x += 0x9e3779b97f4a7c15
	x = (x ^ (x >> 30)) * 0xbf58476d1ce4e5b9
	x = (x ^ (x >> 27)) * 0x94d049bb133111eb
	return x ^ (x >> 31)
}

// Main runs prop under rapid in batches until the time budget is used or a
// batch fails, then writes the worker's statistics.
//
// Environment: VERIF_SEED, VERIF_WORKER, VERIF_BUDGET_S, VERIF_BATCH (checks per
// batch), VERIF_MAXRUNS (stop after that many runs, 0 = no limit), VERIF_OUT.
func Main(t *testing.T, property string, components any, prop func(r *Run)) {
	seed := uint64(envInt("VERIF_SEED", 1))
	worker := int(envInt("VERIF_WORKER", 0))
	budget := time.Duration(envInt("VERIF_BUDGET_S", 5)) * time.Second
	batch := int(envInt("VERIF_BATCH", 50))
	maxRuns := int(envInt("VERIF_MAXRUNS", 0))
	out := os.Getenv("VERIF_OUT")

	cur = &stats{Property: property, Worker: worker, Seed: seed, Faults: map[string]int{}, Probes: map[string]int{},
		RaceBuild: simrt.RaceEnabled, Components: components}
	digests = map[uint64]struct{}{}
	stateSet = map[uint64]struct{}{}
	start := time.Now()

	wrapped := func(rt *rapid.T) {
		r := &Run{T: rt, faults: map[string]int{}, probes: map[string]int{}}
		// However a run ends (violation, rapid running out of recorded choices while shrinking, panic), it
		// must not leave its simulation behind: the next run in this process would find it "already active"
		// and die before logging anything (rapid then reports the violation without its trace).
		defer func() {
			if s := simrt.Active(); s != nil {
				s.Shutdown()
			}
		}()
		prop(r)
		// reached only when the run passed
		cur.Runs++
		cur.Steps += r.steps
		cur.Decisions += r.decisions
		cur.Switches += r.switches
		cur.SimTimeS += r.simTime.Seconds()
		cur.Inconclusive += r.inconcl
		for k, v := range r.faults {
			cur.Faults[k] += v
		}
		for k, v := range r.probes {
			cur.Probes[k] += v
		}
		for _, h := range r.states {
			if len(stateSet) < digestCap {
				stateSet[h] = struct{}{}
			}
		}
		if r.nontrivial {
			cur.Nontrivial++
			if r.hasDigest {
				if len(digests) < digestCap {
					digests[r.digest] = struct{}{}
				} else {
					cur.Capped = true
				}
			}
			if r.sample != nil && len(cur.Samples) < 3 {
				cur.Samples = append(cur.Samples, r.sample())
			}
		}
	}

	replay := false
	if f := flag.Lookup("rapid.failfile"); f != nil && f.Value.String() != "" {
		replay = true
	}
	_ = flag.Set("rapid.checks", strconv.Itoa(batch))
	if replay {
		_ = flag.Set("rapid.checks", "1")
	}
	ok := true
	for b := 0; ; b++ {
		s := mix(seed*1000003 + uint64(worker)*7919 + uint64(b)*104729)
		if s == 0 {
			s = 1
		}
		if v := envInt("VERIF_RAPID_SEED", 0); v != 0 && b == 0 {
			s = uint64(v)
		}
		simrt.LivelockInfo.Store(fmt.Sprintf("rapid_seed=%d batch=%d", s, b))
		_ = flag.Set("rapid.seed", strconv.FormatUint(s, 10))
		ok = t.Run("b"+strconv.Itoa(b), rapid.MakeCheck(wrapped))
		cur.Batches++
		if !ok || replay {
			break
		}
		if time.Since(start) >= budget {
			break
		}
		if maxRuns > 0 && cur.Runs >= maxRuns {
			break
		}
		if mb := int(envInt("VERIF_MAXBATCHES", 0)); mb > 0 && b+1 >= mb {
			break
		}
	}
	cur.Failed = !ok
	cur.WallS = time.Since(start).Seconds()
	cur.Distinct = len(digests)
	cur.States = len(stateSet)
	if out != "" {
		b, _ := json.Marshal(cur)
		if err := os.WriteFile(out, b, 0o644); err != nil {
			fmt.Fprintln(os.Stderr, "VERIF-HARNESS: cannot write stats:", err)
			os.Exit(2)
		}
		writeSet(out+".digests", digests)
		writeSet(out+".states", stateSet)
	}
}

func writeSet(path string, set map[uint64]struct{}) {
	keys := make([]uint64, 0, len(set))
	for k := range set {
		keys = append(keys, k)
	}
	sort.Slice(keys, func(i, j int) bool { return keys[i] < keys[j] })
	buf := make([]byte, 8*len(keys))
	for i, k := range keys {
		binary.LittleEndian.PutUint64(buf[8*i:], k)
	}
	_ = os.WriteFile(path, buf, 0o644)
}

// Hash is a small FNV-1a helper for digests built outside simrt.
type Hash uint64

// NewHash returns the FNV offset basis.
func NewHash() Hash { return 14695981039346656037 }

// Int folds an integer.
func (h *Hash) Int(v int64) {
	x := uint64(*h)
	for i := 0; i < 8; i++ {
		x ^= uint64(byte(v >> (8 * i)))
		x *= 1099511628211
	}
	*h = Hash(x)
}

// Str folds a string.
func (h *Hash) Str(s string) {
	x := uint64(*h)
	for i := 0; i < len(s); i++ {
		x ^= uint64(s[i])
		x *= 1099511628211
	}
	x ^= 0xff
	x *= 1099511628211
	*h = Hash(x)
}

// Guard runs a call into the code under test on the coordinator and turns a
// panic into a violation of kind "panic" (a request that panics is a request
// that was not answered), instead of letting it look like a harness crash.
func (r *Run) Guard(what string, fn func()) {
	var pv any
	var stack string
	func() {
		defer func() {
			if p := recover(); p != nil {
				// rapid's own control flow (Fatalf, invalid data) must pass through untouched
				if s := fmt.Sprintf("%T", p); strings.HasPrefix(s, "rapid.") || strings.HasPrefix(s, "*rapid.") {
					panic(p)
				}
				pv = p
				buf := make([]byte, 6000)
				stack = string(buf[:runtime.Stack(buf, false)])
			}
		}()
		fn()
	}()
	if pv != nil {
		r.T.Logf("VERIF-DETAIL kind=panic: %s panicked: %v\n%s", what, pv, stack)
		r.T.Fatalf("VERIF-FAIL kind=panic")
	}
}

// SlowLogger is a utils.Logger whose calls take time: inside a simulation each
// call is a yield point (also when the middleware logs inside a critical section).
type SlowLogger struct{}

// Like a real logger it renders its arguments (a middleware that logs itself with %v has its String method
// called, under whatever locks it holds at that point) - and then takes its time.
func slowLog(format string, args []interface{}) {
	_ = fmt.Sprintf(format, args...)
	if s := simrt.Active(); s != nil {
		s.Yield()
	}
}

func (SlowLogger) Debug(f string, a ...interface{}) { slowLog(f, a) }
func (SlowLogger) Info(f string, a ...interface{})  { slowLog(f, a) }
func (SlowLogger) Warn(f string, a ...interface{})  { slowLog(f, a) }
func (SlowLogger) Error(f string, a ...interface{}) { slowLog(f, a) }

// FaultyLogger is a SlowLogger whose sink breaks once: the call that brings *Left to zero panics (after OnPanic, if
// set, has been told), every other call behaves like SlowLogger's. A negative or nil Left never fires.
type FaultyLogger struct {
	Left    *int
	OnPanic func()
	Level   string // "" = calls of every level count; else only those of this level ("debug", "info", "warn", "error")
}

func (l FaultyLogger) log(level, f string, a []interface{}) {
	if l.Left != nil && *l.Left > 0 && (l.Level == "" || l.Level == level) {
		*l.Left--
		if *l.Left == 0 {
			*l.Left = -1
			if l.OnPanic != nil {
				l.OnPanic()
			}
			panic(LogSinkBroken)
		}
	}
	slowLog(f, a)
}

// LogSinkBroken is the value a FaultyLogger panics with.
const LogSinkBroken = "simulated: the log sink is broken"

func (l FaultyLogger) Debug(f string, a ...interface{}) { l.log("debug", f, a) }
func (l FaultyLogger) Info(f string, a ...interface{})  { l.log("info", f, a) }
func (l FaultyLogger) Warn(f string, a ...interface{})  { l.log("warn", f, a) }
func (l FaultyLogger) Error(f string, a ...interface{}) { l.log("error", f, a) }
