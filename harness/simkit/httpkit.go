package simkit

import (
	"bufio"
	"bytes"
	"net"
	"net/http"
	"os"
	"syscall"
)

// Recorder is a strict in-memory http.ResponseWriter that behaves like
// net/http's: the first Write implies 200, the header map is snapshotted at
// WriteHeader, an informational or out-of-range status panics like net/http.
type Recorder struct {
	H             http.Header
	Snapshot      http.Header
	Status        int
	WriteHeaders  int
	Body          bytes.Buffer
	Writes        int
	Flushes       []int // body length at each Flush
	Lenient       bool  // do not panic on invalid status (record it)
	InvalidCode   int
	Hijacked      bool
	HijackBuf     bytes.Buffer // what was written to the hijacked connection
	Informational []int        // 1xx statuses sent before the final one
	RefuseHijack  bool         // Hijack returns an error (HTTP/2, an already hijacked connection, ...)
	// BreakAfter >= 0: the client goes away once that many body bytes have reached it; the write in progress is cut
	// short and it and all later ones fail with a broken pipe. -1 (NewRecorder's default): never.
	BreakAfter  int
	BrokenPipes int // writes that failed
}

type hijackConn struct {
	net.Conn
	r *Recorder
}

func (h hijackConn) Write(p []byte) (int, error) { return h.r.HijackBuf.Write(p) }
func (h hijackConn) Close() error                { return nil }

// Hijack implements http.Hijacker: the "connection" records what is written to it.
func (r *Recorder) Hijack() (net.Conn, *bufio.ReadWriter, error) {
	if r.RefuseHijack {
		return nil, nil, http.ErrNotSupported
	}
	r.Hijacked = true
	c := hijackConn{r: r}
	return c, bufio.NewReadWriter(bufio.NewReader(bytes.NewReader(nil)), bufio.NewWriter(c)), nil
}

// CloseNotify implements http.CloseNotifier (never fires).
func (r *Recorder) CloseNotify() <-chan bool { return make(chan bool) }

var _ http.Hijacker = (*Recorder)(nil)

// NewRecorder returns an empty recorder.
func NewRecorder() *Recorder { return &Recorder{H: http.Header{}, BreakAfter: -1} }

// Header implements http.ResponseWriter.
func (r *Recorder) Header() http.Header { return r.H }

// WriteHeader implements http.ResponseWriter.
func (r *Recorder) WriteHeader(code int) {
	if code < 100 || code > 999 {
		r.InvalidCode = code
		if !r.Lenient {
			panic("invalid WriteHeader code " + itoa(code))
		}
	}
	if r.Status != 0 {
		r.WriteHeaders++
		return // superfluous, ignored like net/http
	}
	if code >= 100 && code <= 199 && code != http.StatusSwitchingProtocols {
		// informational response: sent at once, the final status is still to come (net/http semantics)
		r.Informational = append(r.Informational, code)
		return
	}
	r.WriteHeaders++
	r.Status = code
	r.Snapshot = r.H.Clone()
}

func (r *Recorder) Write(b []byte) (int, error) {
	if r.Status == 0 {
		r.WriteHeader(http.StatusOK)
	}
	r.Writes++
	if r.BreakAfter >= 0 && r.Body.Len()+len(b) > r.BreakAfter {
		n := r.BreakAfter - r.Body.Len()
		if n < 0 {
			n = 0
		}
		r.Body.Write(b[:n])
		r.BrokenPipes++
		return n, &net.OpError{Op: "write", Net: "tcp", Err: os.NewSyscallError("write", syscall.EPIPE)}
	}
	return r.Body.Write(b)
}

// Flush implements http.Flusher.
func (r *Recorder) Flush() {
	if r.Status == 0 {
		r.WriteHeader(http.StatusOK)
	}
	r.Flushes = append(r.Flushes, r.Body.Len())
}

func itoa(i int) string {
	if i == 0 {
		return "0"
	}
	neg := i < 0
	if neg {
		i = -i
	}
	var b [20]byte
	p := len(b)
	for i > 0 {
		p--
		b[p] = byte('0' + i%10)
		i /= 10
	}
	if neg {
		p--
		b[p] = '-'
	}
	return string(b[p:])
}

// Plain hides every optional interface of the recorder: a client writer that is
// only an http.ResponseWriter and an http.Flusher (no Hijacker, no CloseNotifier).
type Plain struct{ R *Recorder }

func (p Plain) Header() http.Header         { return p.R.Header() }
func (p Plain) Write(b []byte) (int, error) { return p.R.Write(b) }
func (p Plain) WriteHeader(code int)        { p.R.WriteHeader(code) }
func (p Plain) Flush()                      { p.R.Flush() }
