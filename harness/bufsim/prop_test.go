package bufsim

import (
	"bytes"
	"fmt"
	"github.com/vulcand/oxy/v2/utils"
	"net/http"
	"os"
	"runtime"
	"sort"
	"testing"

	"github.com/vulcand/oxy/v2/buffer"
	"github.com/vulcand/oxy/v2/zzverif/simkit"
	"pgregory.net/rapid"
	"verif.local/simfs"
)

func TestC06(t *testing.T) {
	simkit.Main(t, "C06", components, func(r *simkit.Run) { bufprop(r, "C06") })
}
func TestC07(t *testing.T) {
	simkit.Main(t, "C07", components, func(r *simkit.Run) { bufprop(r, "C07") })
}
func TestC15(t *testing.T) {
	simkit.Main(t, "C15", components, func(r *simkit.Run) { bufprop(r, "C15") })
}

type bufConfig struct {
	memReq, maxReq, memResp, maxResp int
	retry                            *rexpr
}

func (c bufConfig) String() string {
	re := "none"
	if c.retry != nil {
		re = c.retry.render(false)
	}
	return fmt.Sprintf("memReq=%d maxReq=%d memResp=%d maxResp=%d retry=%s", c.memReq, c.maxReq, c.memResp, c.maxResp, re)
}

func drawThreshold(rt *rapid.T, label string) int {
	switch rapid.IntRange(0, 4).Draw(rt, label+"-scale") {
	case 0:
		return rapid.IntRange(1, 16).Draw(rt, label)
	case 1, 2:
		return rapid.IntRange(16, 1024).Draw(rt, label)
	case 3:
		return rapid.SampledFrom([]int{512, 1024, 4096, 32768}).Draw(rt, label)
	default:
		return rapid.IntRange(1024, 65536).Draw(rt, label)
	}
}

// drawMax: 0 = unlimited, else below / equal / above the memory threshold
func drawMax(rt *rapid.T, label string, mem int) int {
	switch rapid.IntRange(0, 5).Draw(rt, label+"-rel") {
	case 0, 1:
		return 0
	case 2:
		return mem
	case 3:
		return rapid.IntRange(1, mem).Draw(rt, label+"-below")
	default:
		return mem + rapid.IntRange(1, 3000).Draw(rt, label+"-above")
	}
}

// kinds of violation each property reports
var kindsOf = map[string]map[string]bool{
	"C06": {"request-altered": true, "body-altered": true, "length-undeclared": true, "chunked-forwarded": true, "handler-after-read-fault": true, "no-error-after-read-fault": true},
	"C07": {"invocation-count": true, "status": true, "headers": true, "body": true, "discarded-attempt-leaked": true, "client-writer-misuse": true, "empty-body-not-empty": true, "error-handler-twice": true, "hijacked-connection": true},
	"C15": {"request-over-limit-passed": true, "request-limit-status": true, "response-over-limit-leaked": true, "response-limit-status": true, "temp-file-left": true, "spurious-limit": true, "error-handler-bypassed": true},
}

func bufprop(r *simkit.Run, prop string) {
	rt := r.T
	cleanTemp()
	resetDisk()
	defer resetDisk()
	tmpdir := os.Getenv("TMPDIR")
	defer os.Setenv("TMPDIR", tmpdir)

	var cfg bufConfig
	cfg.memReq = drawThreshold(rt, "mem-req")
	cfg.maxReq = drawMax(rt, "max-req", cfg.memReq)
	cfg.memResp = drawThreshold(rt, "mem-resp")
	cfg.maxResp = drawMax(rt, "max-resp", cfg.memResp)
	if prop == "C06" {
		cfg.maxResp = 0
	}
	if rapid.IntRange(0, 3).Draw(rt, "with-retry") > 0 {
		cfg.retry = drawRetryExpr(rt, 3)
	}
	opts := []buffer.Option{buffer.MemRequestBodyBytes(int64(cfg.memReq)), buffer.MaxRequestBodyBytes(int64(cfg.maxReq)),
		buffer.MemResponseBodyBytes(int64(cfg.memResp)), buffer.MaxResponseBodyBytes(int64(cfg.maxResp))}
	if cfg.retry != nil {
		opts = append(opts, buffer.Retry(cfg.retry.render(false)))
	}
	nestBuffers = rapid.IntRange(0, 3).Draw(rt, "behind-another-buffer") == 0
	// the order in which options are passed means nothing
	if perm := rapid.Permutation(seq(len(opts))).Draw(rt, "option-order"); true {
		shuffled := make([]buffer.Option, len(opts))
		for i, j := range perm {
			shuffled[i] = opts[j]
		}
		opts = shuffled
	}
	// by draw the buffer is built with the caller's own error handler (the default mapping plus a mark on the
	// response: the configured handler, and not the built-in one, answers whenever the buffer refuses) and is verbose
	ownHandler := rapid.IntRange(0, 2).Draw(rt, "own-error-handler") == 0
	if ownHandler {
		opts = append(opts, buffer.ErrorHandler(utils.ErrorHandlerFunc(func(w http.ResponseWriter, req *http.Request, err error) {
			w.Header().Add("X-Own-Err-Handler", "1")
			(&buffer.SizeErrHandler{}).ServeHTTP(w, req, err)
		})))
	}
	if rapid.IntRange(0, 2).Draw(rt, "verbose") == 0 {
		opts = append(opts, buffer.Verbose(true))
		if rapid.Bool().Draw(rt, "rendering-logger") {
			opts = append(opts, buffer.Logger(simkit.SlowLogger{}))
		}
	}
	fails := map[string]string{}
	note := func(kind, format string, args ...any) {
		if _, dup := fails[kind]; !dup {
			fails[kind] = fmt.Sprintf(format, args...)
		}
	}
	h := simkit.NewHash()
	nEx := rapid.IntRange(1, 4).Draw(rt, "exchanges")
	spills, retries, overReq, overResp, readFaults, diskFaults, bodiless, aborts, clientGone, lateHijacks := 0, 0, 0, 0, 0, 0, 0, 0, 0, 0
	var samples []string

	for x := 0; x < nEx; x++ {
		ex := &exchange{method: rapid.SampledFrom([]string{"GET", "POST", "POST", "PUT", "HEAD", "DELETE"}).Draw(rt, "method"), url: drawURL(rt), header: drawClientHeaders(rt)}
		pivots := []int{cfg.memReq}
		if cfg.maxReq > 0 {
			pivots = append(pivots, cfg.maxReq)
		}
		ex.bodyLen = drawSizeAround(rt, "req-len", pivots...)
		if simkit.Thorough() && rapid.IntRange(0, 40).Draw(rt, "huge") == 0 {
			ex.bodyLen = rapid.IntRange(1<<20, 3<<20).Draw(rt, "req-len-mb")
		}
		ex.chunked = rapid.Bool().Draw(rt, "chunked")
		ex.unframed = ex.chunked && rapid.IntRange(0, 3).Draw(rt, "undeclared-length-not-chunked") == 0
		if !ex.chunked && cfg.maxReq > 0 && ex.bodyLen > cfg.maxReq && rapid.IntRange(0, 2).Draw(rt, "length-understated") == 0 {
			// the declared length is within the maximum, the body that arrives is not (a middleware in front replaced
			// the body - inflated it, say - and left the old length): over the limit is over the limit
			ex.declared = rapid.IntRange(1, cfg.maxReq).Draw(rt, "declared-length")
			r.Fault("declared-length-understates-the-body")
		}
		ex.writerKind = rapid.SampledFrom([]string{"", "", "", "hijack-refused", "plain"}).Draw(rt, "client-writer")
		ex.breakAfter = -1
		if rapid.IntRange(0, 5).Draw(rt, "client-goes-away") == 0 {
			ex.breakAfter = rapid.SampledFrom([]int{0, 1, 7, 100, 600, 5000}).Draw(rt, "after-bytes")
		}
		ex.reader = &faultyReader{data: makeBody(ex.bodyLen), failAt: -1}
		for i, n := 0, rapid.IntRange(0, 4).Draw(rt, "read-chunks"); i < n; i++ {
			ex.reader.chunks = append(ex.reader.chunks, rapid.SampledFrom([]int{1, 2, 7, 100, 511, 512, 513, 4096}).Draw(rt, "chunk"))
		}
		// faults
		fault := "none"
		if rapid.IntRange(0, 3).Draw(rt, "fault?") == 0 {
			fault = rapid.SampledFrom([]string{"reader-error", "reader-net-error", "reader-timeout", "cancelled+reader-error", "tmpdir-missing", "tempfile-error", "disk-full", "disk-full-torn"}).Draw(rt, "fault")
		}
		os.Setenv("TMPDIR", tmpdir)
		resetDisk()
		switch fault {
		case "reader-error", "reader-net-error", "reader-timeout", "cancelled+reader-error":
			if ex.bodyLen > 0 {
				ex.reader.failAt = rapid.IntRange(0, ex.bodyLen-1).Draw(rt, "fail-at")
			} else {
				ex.reader.failAt = 0
			}
			ex.reader.err = errClientGone
			if fault == "reader-net-error" {
				ex.reader.err = netErr{}
			}
			if fault == "reader-timeout" {
				ex.reader.err = netErr{timeout: true}
			}
			ex.cancelled = fault == "cancelled+reader-error"
		case "tmpdir-missing":
			os.Setenv("TMPDIR", tmpdir+"/does-not-exist")
		case "tempfile-error":
			simfs.TempFileFailIn = rapid.IntRange(1, 3).Draw(rt, "tempfile-fail-in")
		case "disk-full", "disk-full-torn":
			simfs.WriteBudget = int64(rapid.IntRange(0, 3000).Draw(rt, "disk-budget"))
			simfs.ShortWrite = fault == "disk-full-torn"
		}
		// handler scripts, one per attempt
		for a, n := 0, rapid.IntRange(1, 4).Draw(rt, "scripts"); a < n; a++ {
			sc := attemptScript{readN: -1, headers: http.Header{}}
			if rapid.IntRange(0, 2).Draw(rt, "partial-read") == 0 {
				sc.readN = rapid.IntRange(0, ex.bodyLen+1).Draw(rt, "read-n")
			}
			sc.readHow = rapid.IntRange(0, 2).Draw(rt, "read-how")
			sc.closeBody = rapid.Bool().Draw(rt, "close-body")
			sc.writeHow = rapid.SampledFrom([]int{0, 0, 1, 2, 3, 4, 5}).Draw(rt, "write-how")
			if ex.writerKind != "" {
				sc.tryHijack = rapid.Bool().Draw(rt, "try-hijack")
			} else {
				// the client's writer allows a take-over: now and then the handler writes through the buffer first (a
				// response it then abandons, spilled or not) and takes the connection over afterwards
				sc.lateHijack = rapid.IntRange(0, 11).Draw(rt, "hijack-after-writing") == 0
			}
			sc.mutate = rapid.Bool().Draw(rt, "mutate")
			sc.early = rapid.IntRange(0, 5).Draw(rt, "early-hints") == 0
			sc.abort = rapid.IntRange(0, 9).Draw(rt, "handler-aborts") == 0
			sc.status = rapid.SampledFrom([]int{0, 0, 200, 200, 201, 204, 301, 304, 404, 500, 502, 503, 504, -1}).Draw(rt, "status")
			if sc.status == -1 {
				// any final status net/http lets a handler choose: only 204, 304 (and HEAD) mean "no body"; 205, 206, 226, 3xx
				// and every error class carry whatever the handler wrote (413 is left to the buffer: the oracle tells its refusals by it)
				sc.status = rapid.SampledFrom([]int{202, 203, 205, 206, 207, 226, 300, 302, 303, 305, 307, 308, 400, 401, 405, 408, 409, 410, 411, 412, 416, 417, 418, 421, 425, 426, 428, 429, 431, 451, 499, 501, 505, 507, 511, 599}).Draw(rt, "rare-status")
			}
			if rapid.Bool().Draw(rt, "resp-hdr") {
				sc.headers.Add("X-Multi-Resp", "a")
				sc.headers.Add("X-Multi-Resp", "b")
			}
			if rapid.Bool().Draw(rt, "resp-ct") {
				sc.headers.Set("Content-Type", "text/plain")
			}
			rp := []int{cfg.memResp}
			if cfg.maxResp > 0 {
				rp = append(rp, cfg.maxResp)
			}
			total := drawSizeAround(rt, "resp-len", rp...)
			if prop == "C07" && cfg.maxResp > 0 && total > cfg.maxResp {
				total = cfg.maxResp
			}
			for left, k := total, 0; (left > 0 || k == 0) && k < 20; k++ {
				if left == 0 {
					if rapid.Bool().Draw(rt, "zero-write") {
						sc.writes = append(sc.writes, 0)
					}
					break
				}
				n := left
				if k < 19 && rapid.Bool().Draw(rt, "split") {
					n = rapid.IntRange(0, left).Draw(rt, "write-n")
				}
				sc.writes = append(sc.writes, n)
				left -= n
			}
			if len(sc.writes) > 0 && rapid.IntRange(0, 4).Draw(rt, "trailing-empty-write") == 0 {
				sc.writes = append(sc.writes, 0)
			}
			bodilessKind := ex.method == "HEAD" || sc.status == 204 || sc.status == 304
			if prop != "C15" && bodilessKind {
				sc.writes = nil // a well-behaved handler writes no body here; C15 covers the ones that do
			}
			if prop == "C15" && rapid.IntRange(0, 5).Draw(rt, "cl0-or-grpc") == 0 {
				if rapid.Bool().Draw(rt, "grpc") {
					sc.grpcStat = rapid.SampledFrom([]string{"0", "2", "14"}).Draw(rt, "grpc-status")
				} else {
					sc.setCL0 = true
				}
			}
			ex.scripts = append(ex.scripts, sc)
		}

		before := tempFiles()
		// descriptors left over from earlier exchanges (multibuf's own error paths release theirs only at GC) are not this exchange's
		runtime.GC()
		fdsBefore := map[string]bool{}
		for _, f := range openSpillFDs() {
			fdsBefore[f] = true
		}
		ex.run(b(rt, opts, ex))
		after := tempFiles()
		os.Setenv("TMPDIR", tmpdir)
		if simfs.TempFiles > 0 {
			spills++
		}
		if simfs.TempFileFaults > 0 {
			r.Fault("tempfile-error")
			diskFaults++
		}
		if simfs.WriteFaults > 0 {
			r.Fault(fault)
			diskFaults++
		}
		if ex.reader.failed {
			r.Fault(fault)
			readFaults++
		}
		if fault == "tmpdir-missing" && len(ex.seen) == 0 && ex.rec.Status >= 500 {
			r.Fault("tmpdir-missing")
			diskFaults++
		}
		if len(ex.seen) > 1 {
			retries++
		}
		if len(samples) < 4 {
			samples = append(samples, fmt.Sprintf("%s %s body=%d chunked=%v fault=%s -> %d attempts, status %d, %d body bytes", ex.method, ex.url, ex.bodyLen, ex.chunked, fault, len(ex.seen), ex.rec.Status, ex.rec.Body.Len()))
		}
		h.Int(int64(len(ex.seen)))
		h.Int(int64(ex.rec.Status))
		h.Int(int64(ex.rec.Body.Len()))
		h.Int(int64(ex.bodyLen))
		where := fmt.Sprintf("exchange %d (%s %s, body %d bytes chunked=%v, fault %s) [%v]", x, ex.method, ex.url, ex.bodyLen, ex.chunked, fault, cfg)

		overRequest := cfg.maxReq > 0 && ex.bodyLen > cfg.maxReq
		if overRequest {
			overReq++
		}
		readerFaultHit := ex.reader.failed
		diskFaultHit := simfs.TempFileFaults > 0 || simfs.WriteFaults > 0 || fault == "tmpdir-missing"

		// ---- temp files (C15) ----
		if len(after) > len(before) || (len(after) > 0 && len(before) == 0) {
			note("temp-file-left", "%s: after the exchange completed (status %d, %d attempts) the temp dir still holds %v", where, ex.rec.Status, len(ex.seen), after)
			cleanTemp()
		}
		// a request body the buffer took over (the handler ran) must have been released with the exchange
		var fds []string
		for _, f := range openSpillFDs() {
			if !fdsBefore[f] {
				fds = append(fds, f)
			}
		}
		if len(ex.seen) > 0 && len(fds) > 0 {
			note("temp-file-left", "%s: after the exchange completed the process still holds spill files open: %v", where, fds)
		}
		if ex.panicked == http.ErrAbortHandler {
			// the handler aborted: the abort must reach the server (it did), and nothing may be left behind (checked above)
			aborts++
			r.Fault("handler-abort")
			continue
		}
		if ex.panicked != nil {
			note("client-writer-misuse", "%s: the client's ResponseWriter was misused: %v", where, ex.panicked)
			continue
		}
		if ex.rec.BrokenPipes > 0 {
			// the client went away while the response was delivered: nothing may be left behind (checked above);
			// what it received before is a prefix of nothing in particular
			clientGone++
			r.Fault("client-gone-mid-delivery")
			continue
		}
		// ---- request side ----
		if overRequest && !readerFaultHit {
			if len(ex.seen) > 0 {
				note("request-over-limit-passed", "%s: request body exceeds the maximum %d but the handler was invoked", where, cfg.maxReq)
			}
			// with the client's context already cancelled the client is gone: 499 is accepted for it as well
			if ex.rec.Status != http.StatusRequestEntityTooLarge && !diskFaultHit && !(ex.cancelled && ex.rec.Status == 499) {
				note("request-limit-status", "%s: request body exceeds the maximum %d, answered %d instead of 413", where, cfg.maxReq, ex.rec.Status)
			}
			if n := len(ex.rec.Snapshot.Values("X-Own-Err-Handler")); ownHandler && n != 1 {
				note("error-handler-bypassed", "%s: request body exceeds the maximum %d (status %d): the configured error handler answered %d times", where, cfg.maxReq, ex.rec.Status, n)
			}
			continue
		}
		if readerFaultHit {
			if len(ex.seen) > 0 {
				note("handler-after-read-fault", "%s: reading the client's body failed at byte %d, yet the handler was invoked", where, ex.reader.failAt)
			}
			if ex.rec.Status < 400 {
				note("no-error-after-read-fault", "%s: reading the client's body failed at byte %d, answered %d", where, ex.reader.failAt, ex.rec.Status)
			}
			continue
		}
		if !overRequest && !diskFaultHit && ex.rec.Status == http.StatusRequestEntityTooLarge {
			note("spurious-limit", "%s: 413 although the body is within the maximum", where)
		}
		if diskFaultHit && len(ex.seen) == 0 {
			// the request could not be buffered: an error status is all that is required
			if ex.rec.Status < 400 {
				note("no-error-after-read-fault", "%s: the request body could not be spilled to disk, answered %d", where, ex.rec.Status)
			}
			continue
		}
		// what every invocation must have seen (C06)
		want := makeBody(ex.bodyLen)
		for a, s := range ex.seen {
			sc := ex.scripts[a%len(ex.scripts)]
			if s.method != ex.method || s.url != ex.url || s.host != ex.request().Host {
				note("request-altered", "%s: attempt %d was handed %s %s (host %s), the client sent %s %s", where, a+1, s.method, s.url, s.host, ex.method, ex.url)
			}
			if !sameHeader(s.header, ex.header) {
				note("request-altered", "%s: attempt %d was handed headers %v, the client sent %v", where, a+1, s.header, ex.header)
			}
			if s.cl != int64(ex.bodyLen) {
				note("length-undeclared", "%s: attempt %d saw ContentLength %d, the body has %d bytes", where, a+1, s.cl, ex.bodyLen)
			}
			for _, te := range s.te {
				if te == "chunked" {
					note("chunked-forwarded", "%s: attempt %d still carries a chunked transfer-encoding", where, a+1)
				}
			}
			if s.readErr != nil {
				note("body-altered", "%s: attempt %d got a read error %v", where, a+1, s.readErr)
			}
			if !bytes.HasPrefix(want, s.body) {
				note("body-altered", "%s: attempt %d read %d bytes that are not the client's bytes from offset 0 (first difference at %d)", where, a+1, len(s.body), firstDiff(want, s.body))
			}
			if (s.readAll || sc.readN > ex.bodyLen) && len(s.body) != ex.bodyLen {
				note("body-altered", "%s: attempt %d read until EOF and got %d bytes, the client sent %d", where, a+1, len(s.body), ex.bodyLen)
			}
			if sc.readN >= 0 && sc.readN <= ex.bodyLen && len(s.body) != sc.readN {
				note("body-altered", "%s: attempt %d asked for %d bytes and got %d of %d", where, a+1, sc.readN, len(s.body), ex.bodyLen)
			}
		}
		if len(ex.seen) == 0 {
			if !diskFaultHit {
				note("invocation-count", "%s: the handler was never invoked (status %d)", where, ex.rec.Status)
			}
			continue
		}
		if ex.lateHijacked {
			// the handler took the connection over after writing through the buffer: the connection is the handler's, the
			// buffer has nothing more to say on it, no further attempt is made, and what was captured is let go of (the
			// temp-file listing above)
			lateHijacks++
			r.Fault("handler-hijacks-after-writing")
			if got := ex.rec.HijackBuf.String(); got != "spoken-on-the-hijacked-connection" {
				note("hijacked-connection", "%s: the handler wrote its message on the connection it took over, the connection got %q", where, truncate([]byte(got)))
			}
			if ex.rec.Status != 0 || ex.rec.Body.Len() > 0 {
				note("hijacked-connection", "%s: after the handler took the connection over the buffer still answered through the ResponseWriter (status %d, %d bytes)", where, ex.rec.Status, ex.rec.Body.Len())
			}
			if sc := ex.scripts[(len(ex.seen)-1)%len(ex.scripts)]; !sc.lateHijack {
				note("invocation-count", "%s: the handler was invoked again (%d times) after it had taken the connection over", where, len(ex.seen))
			}
			continue
		}
		// ---- retries (C07) ----
		codes := func(attempt int) (int, bool) {
			sc := ex.scripts[(attempt-1)%len(ex.scripts)]
			return sc.status, sc.status != 0
		}
		// a response that could not be captured (over its limit, disk fault) ends the exchange with an error
		final := ex.scripts[(len(ex.seen)-1)%len(ex.scripts)]
		respOver := false
		for a := range ex.seen {
			if sc := ex.scripts[a%len(ex.scripts)]; cfg.maxResp > 0 && sc.bodyLen() > cfg.maxResp {
				respOver = true
			}
		}
		if respOver {
			overResp++
		}
		respDisk := diskFaultHit
		if !respOver && !respDisk {
			e200, e0 := expectedInvocations(cfg.retry, ex.method, codes)
			if len(ex.seen) != e200 && len(ex.seen) != e0 {
				note("invocation-count", "%s: handler invoked %d times; the retry expression over the attempts' codes %v requires %d", where, len(ex.seen), scriptCodes(ex), e200)
			}
		}
		if len(ex.seen) > 11 {
			note("invocation-count", "%s: handler invoked %d times (more than 11)", where, len(ex.seen))
		}
		// ---- the one response (C07 / C15) ----
		if ex.rec.WriteHeaders != 1 {
			note("client-writer-misuse", "%s: WriteHeader reached the client %d times", where, ex.rec.WriteHeaders)
		}
		ownMarks := len(ex.rec.Snapshot.Values("X-Own-Err-Handler"))
		if ownMarks > 1 {
			note("error-handler-twice", "%s: the configured error handler answered %d times (status %d)", where, ownMarks, ex.rec.Status)
		}
		body := ex.rec.Body.Bytes()
		if respOver || respDisk {
			lastOver := cfg.maxResp > 0 && final.bodyLen() > cfg.maxResp
			if lastOver {
				if ex.rec.Status < 400 {
					note("response-limit-status", "%s: the response body (%d bytes) exceeds the maximum %d, the client got status %d", where, final.bodyLen(), cfg.maxResp, ex.rec.Status)
				}
				if ownHandler && ownMarks != 1 {
					note("error-handler-bypassed", "%s: the response body (%d bytes) exceeds the maximum %d (status %d): the configured error handler answered %d times", where, final.bodyLen(), cfg.maxResp, ex.rec.Status, ownMarks)
				}
				for a := range ex.seen {
					if bytes.IndexByte(body, respByte(a)) >= 0 && bytes.Count(body, []byte{respByte(a)}) > 8 {
						note("response-over-limit-leaked", "%s: bytes of the over-limit response of attempt %d reached the client", where, a+1)
					}
				}
			}
			continue
		}
		wantStatus := final.status
		if wantStatus == 0 {
			wantStatus = 200
		}
		if ex.rec.Status != wantStatus {
			note("status", "%s: the final attempt (%d) answered %d (0 = none chosen), the client got %d", where, len(ex.seen), final.status, ex.rec.Status)
		}
		for k, vv := range final.headers {
			if fmt.Sprint(ex.rec.Snapshot[k]) != fmt.Sprint(vv) {
				note("headers", "%s: header %s of the final attempt is %v, the client got %v", where, k, vv, ex.rec.Snapshot[k])
			}
		}
		if got := ex.rec.Snapshot.Get("X-Attempt"); got != fmt.Sprint(len(ex.seen)-1) {
			note("discarded-attempt-leaked", "%s: X-Attempt header at the client is %q, the final attempt is %d", where, ex.rec.Snapshot["X-Attempt"], len(ex.seen)-1)
		}
		noBodyKind := ex.method == "HEAD" || wantStatus == 204 || wantStatus == 304 || final.setCL0 || (final.grpcStat != "" && final.grpcStat != "0")
		if noBodyKind {
			bodiless++
			if len(body) != 0 && prop != "C15" {
				note("body", "%s: response kind carries no body, the client got %d bytes", where, len(body))
			}
			continue
		}
		wantBody := bytes.Repeat([]byte{respByte(len(ex.seen) - 1)}, final.bodyLen())
		if !bytes.Equal(body, wantBody) {
			if final.bodyLen() == 0 {
				note("empty-body-not-empty", "%s: the final attempt wrote no body (status %d); the client got status %d and %d bytes %q", where, final.status, ex.rec.Status, len(body), truncate(body))
			} else {
				leaked := false
				for a := 0; a < len(ex.seen)-1; a++ {
					if bytes.IndexByte(body, respByte(a)) >= 0 && respByte(a) != respByte(len(ex.seen)-1) {
						leaked = true
					}
				}
				if leaked {
					note("discarded-attempt-leaked", "%s: bytes written by a discarded attempt reached the client", where)
				} else {
					note("body", "%s: the final attempt wrote %d bytes, the client got %d (first difference at %d)", where, len(wantBody), len(body), firstDiff(wantBody, body))
				}
			}
		}
	}
	// report in a fixed order (map iteration order must not decide the failure class)
	var kinds []string
	for kind := range fails {
		if kindsOf[prop][kind] {
			kinds = append(kinds, kind)
		}
	}
	sort.Strings(kinds)
	for _, kind := range kinds {
		failKind(r, kind, fails[kind])
	}
	r.SetDigest(uint64(h))
	switch prop {
	case "C06":
		if retries > 0 || spills > 0 {
			r.Nontrivial()
		}
	case "C07":
		if retries > 0 {
			r.Nontrivial()
		}
	default:
		if spills > 0 || overReq > 0 || overResp > 0 {
			r.Nontrivial()
		}
	}
	r.ProbeN("exchange-with-spill-to-disk", spills)
	r.ProbeN("exchange-with-retries", retries)
	r.ProbeN("request-over-max", overReq)
	r.ProbeN("response-over-max", overResp)
	r.ProbeN("bodiless-response-kind", bodiless)
	r.ProbeN("reader-fault-hit", readFaults)
	r.ProbeN("disk-fault-hit", diskFaults)
	r.ProbeN("handler-aborted", aborts)
	r.ProbeN("client-gone-mid-delivery", clientGone)
	r.ProbeN("handler-hijacked-after-writing", lateHijacks)
	r.Sample(func() any { return map[string]any{"config": cfg.String(), "exchanges": samples} })
}

func b(rt *rapid.T, opts []buffer.Option, ex *exchange) *buffer.Buffer {
	bf, err := buffer.New(ex.handler(), opts...)
	if err != nil {
		rt.Fatalf("buffer.New: %v", err)
	}
	if nestBuffers {
		// the buffer under test sits behind another, plainly configured one (two live buffered responses per
		// request): the outer one relays what the inner one delivers
		// (it keeps everything in memory: the disk and its faults are the inner buffer's)
		outer, err := buffer.New(bf, buffer.MemRequestBodyBytes(1<<30), buffer.MemResponseBodyBytes(1<<30))
		if err != nil {
			rt.Fatalf("buffer.New (outer): %v", err)
		}
		return outer
	}
	return bf
}

// nestBuffers is drawn per run
var nestBuffers bool

func scriptCodes(ex *exchange) []int {
	var out []int
	for _, s := range ex.scripts {
		out = append(out, s.status)
	}
	return out
}

func firstDiff(a, b []byte) int {
	n := len(a)
	if len(b) < n {
		n = len(b)
	}
	for i := 0; i < n; i++ {
		if a[i] != b[i] {
			return i
		}
	}
	return n
}

func truncate(b []byte) string {
	if len(b) > 40 {
		return string(b[:40]) + "..."
	}
	return string(b)
}

// failKind fails from one call site per kind so that rapid's shrinker, which
// compares message and traceback, keeps to one class.
func failKind(r *simkit.Run, kind, msg string) { r.Fail(kind, "%s", msg) }

func seq(n int) []int {
	out := make([]int, n)
	for i := range out {
		out[i] = i
	}
	return out
}
