package bufsim

import (
	"bytes"
	"context"
	"errors"
	"fmt"
	"io"
	"net/http"
	"net/url"
	"os"
	"reflect"
	"sort"
	"strings"

	"github.com/vulcand/oxy/v2/buffer"
	"github.com/vulcand/oxy/v2/zzverif/simkit"
	"pgregory.net/rapid"
	"verif.local/simfs"
)

var components = map[string][]string{
	"real": {"buffer.Buffer (request buffering, retry loop, response capture)", "buffer retry-predicate parser (vulcand/predicate)", "github.com/mailgun/multibuf (memory/disk spill; scratch copy with file operations routed through the simulated disk)", "utils error handlers"},
	"simulated": {"client request body (reader with drawn short reads and an injected failure at a drawn offset)", "request context cancellation", "disk (per-process temp dir listed after every exchange; injected: temp dir missing, temp-file creation failure, ENOSPC with and without torn write after a drawn number of bytes)",
		"protected handler (scripted per attempt: bytes read, in-place mutation of the request it was handed, status, headers, body writes)", "client response writer (strict recorder behaving like net/http: invalid status panics, first Write implies 200)"},
}

// body byte i of the client's request
func reqByte(i int) byte { return byte((i*7 + 3) % 251) }

func makeBody(n int) []byte {
	b := make([]byte, n)
	for i := range b {
		b[i] = reqByte(i)
	}
	return b
}

// faultyReader delivers data in drawn chunk sizes and fails at failAt (if >= 0).
type faultyReader struct {
	data   []byte
	pos    int
	chunks []int
	ci     int
	failAt int
	err    error
	failed bool
	closed bool
}

func (f *faultyReader) Read(p []byte) (int, error) {
	if f.failAt >= 0 && f.pos >= f.failAt {
		f.failed = true
		return 0, f.err
	}
	if f.pos >= len(f.data) {
		return 0, io.EOF
	}
	n := len(p)
	if len(f.chunks) > 0 {
		if c := f.chunks[f.ci%len(f.chunks)]; c < n {
			n = c
		}
		f.ci++
	}
	if n > len(f.data)-f.pos {
		n = len(f.data) - f.pos
	}
	if f.failAt >= 0 && f.pos+n > f.failAt {
		n = f.failAt - f.pos
	}
	if n == 0 && len(p) > 0 {
		n = 1
		if f.failAt >= 0 && f.pos+n > f.failAt {
			f.failed = true
			return 0, f.err
		}
	}
	copy(p, f.data[f.pos:f.pos+n])
	f.pos += n
	return n, nil
}

func (f *faultyReader) Close() error { f.closed = true; return nil }

type netErr struct{ timeout bool }

func (e netErr) Error() string   { return "simulated network error" }
func (e netErr) Timeout() bool   { return e.timeout }
func (e netErr) Temporary() bool { return false }

// script of the protected handler for one attempt
type attemptScript struct {
	readHow   int  // 0 io.ReadAll / io.ReadFull, 1 io.Copy (uses the body's WriterTo if it has one), 2 small Read calls
	readN     int  // bytes of the body to read; -1 = until EOF
	mutate    bool // scribble over the request it was handed
	status    int  // 0 = never calls WriteHeader
	headers   http.Header
	writes    []int // sizes of successive Write calls
	setCL0    bool
	grpcStat  string
	early     bool // 103 Early Hints before the final status
	closeBody bool // the handler closes the request body when done with it (http.Transport always does)
	writeHow  int  // 0 Write, 1 io.WriteString, 2 io.Copy from a source with WriteTo, 3 fmt.Fprintf, 4 io.Copy from a plain reader per piece, 5 one io.Copy of the whole body from a reader that delivers it in those pieces
	tryHijack bool // the handler first tries to take over the connection; the client's writer refuses or cannot, and it answers normally
	lateHijack bool // after its writes the handler takes the connection over (granted by a client writer that allows it), speaks on it and returns
	abort     bool // after its writes the handler aborts with panic(http.ErrAbortHandler), as a reverse proxy does when the backend breaks off
}

// what the handler saw on one invocation
type attemptSeen struct {
	method  string
	url     string
	header  http.Header
	cl      int64
	te      []string
	body    []byte
	readAll bool
	sawEOF  bool
	readErr error
	host    string
}

type exchange struct {
	method        string
	url           string
	header        http.Header
	bodyLen       int
	declared      int // > 0: the declared length, smaller than the body that arrives
	chunked       bool
	unframed      bool   // with chunked: no declared length and no chunked encoding either
	breakAfter    int    // the client goes away after that many response body bytes (-1: stays)
	writerKind    string // "", "hijack-refused" (HTTP/2, an already hijacked connection), "plain" (no Hijacker at all)
	hijackGranted bool
	lateHijacked  bool // a handler took the connection over after having written through the buffer
	reader        *faultyReader
	cancelled     bool
	scripts       []attemptScript
	seen          []attemptSeen
	rec           *simkit.Recorder
	panicked      any
}

// payload byte of attempt a
func respByte(a int) byte { return byte('A' + a%26) }

func (ex *exchange) handler() http.Handler {
	return http.HandlerFunc(func(w http.ResponseWriter, req *http.Request) {
		a := len(ex.seen)
		sc := ex.scripts[a%len(ex.scripts)]
		seen := attemptSeen{method: req.Method, url: req.URL.String(), header: req.Header.Clone(), cl: req.ContentLength, te: append([]string(nil), req.TransferEncoding...), host: req.Host}
		if req.Body != nil {
			if sc.readN < 0 && sc.readHow == 1 {
				var buf bytes.Buffer
				_, err := io.Copy(&buf, req.Body)
				seen.body, seen.readErr, seen.readAll, seen.sawEOF = buf.Bytes(), err, true, err == nil
			} else if sc.readN < 0 && sc.readHow == 2 {
				var buf bytes.Buffer
				chunk := make([]byte, 7)
				var err error
				for {
					var n int
					n, err = req.Body.Read(chunk)
					buf.Write(chunk[:n])
					if err != nil {
						break
					}
				}
				if err == io.EOF {
					err = nil
				}
				seen.body, seen.readErr, seen.readAll, seen.sawEOF = buf.Bytes(), err, true, err == nil
			} else if sc.readN < 0 {
				b, err := io.ReadAll(req.Body)
				seen.body, seen.readErr, seen.readAll, seen.sawEOF = b, err, true, err == nil
			} else if sc.readHow == 1 {
				var buf bytes.Buffer
				_, err := io.CopyN(&buf, req.Body, int64(sc.readN))
				seen.body = buf.Bytes()
				if err == io.EOF {
					seen.sawEOF = true
				} else if err != nil {
					seen.readErr = err
				}
			} else {
				buf := make([]byte, sc.readN)
				n, err := io.ReadFull(req.Body, buf)
				seen.body = buf[:n]
				if err == io.EOF || err == io.ErrUnexpectedEOF {
					seen.sawEOF = true
				} else if err != nil {
					seen.readErr = err
				}
			}
		}
		ex.seen = append(ex.seen, seen)
		if sc.tryHijack {
			if hj, ok := w.(http.Hijacker); ok {
				if conn, _, err := hj.Hijack(); err == nil && conn != nil {
					ex.hijackGranted = true
				}
			}
		}
		if sc.closeBody && req.Body != nil {
			_ = req.Body.Close()
		}
		if sc.mutate {
			for _, vv := range req.Header { // edit the values where they are (redacting a credential, say)
				for i := range vv {
					vv[i] = "edited-in-place"
				}
			}
			req.Header.Set("X-Scribble", "attempt")
			req.Header.Del("X-Multi")
			for k := range req.Header {
				req.Header[k] = append(req.Header[k], "appended")
			}
			req.URL.Path = "/scribbled"
			req.URL.RawQuery = "scribbled=1"
			req.URL.Host = "scribbled"
			if req.URL.User != nil {
				*req.URL.User = *url.User("scribbled")
			}
			req.Method = "PATCH"
			req.ContentLength = 12345
			req.TransferEncoding = []string{"chunked"}
		}
		for k, vv := range sc.headers {
			for _, v := range vv {
				w.Header().Add(k, v)
			}
		}
		w.Header().Set("X-Attempt", fmt.Sprint(a))
		if sc.setCL0 {
			w.Header().Set("Content-Length", "0")
		}
		if sc.grpcStat != "" {
			w.Header().Set("Grpc-Status", sc.grpcStat)
		}
		if sc.early {
			w.WriteHeader(http.StatusEarlyHints)
		}
		if sc.status != 0 {
			w.WriteHeader(sc.status)
		}
		whole := sc.writeHow == 5 && len(sc.writes) > 0
		for _, n := range sc.writes {
			whole = whole && n > 0 // an empty write is a call of its own; a reader has no way to deliver one
		}
		if whole {
			// a handler that relays a file or an upstream stream: one copy, the source hands over a piece per read
			_, _ = io.Copy(w, &piecewiseReader{b: respByte(a), pieces: append([]int(nil), sc.writes...)})
		}
		for _, n := range sc.writes {
			if whole {
				break
			}
			chunk := bytes.Repeat([]byte{respByte(a)}, n)
			switch sc.writeHow { // the ways handlers put bytes on a ResponseWriter
			case 1:
				_, _ = io.WriteString(w, string(chunk)) // uses the writer's WriteString if it has one
			case 2:
				_, _ = io.Copy(w, bytes.NewReader(chunk)) // the source writes itself (WriteTo): plain Write calls on the writer
			case 4:
				_, _ = io.Copy(w, struct{ io.Reader }{bytes.NewReader(chunk)}) // uses the writer's ReadFrom if it has one
			case 3:
				_, _ = fmt.Fprintf(w, "%s", chunk)
			default:
				_, _ = w.Write(chunk)
			}
		}
		if sc.lateHijack {
			if hj, ok := w.(http.Hijacker); ok {
				if conn, _, err := hj.Hijack(); err == nil && conn != nil {
					ex.lateHijacked = true
					_, _ = conn.Write([]byte("spoken-on-the-hijacked-connection"))
					_ = conn.Close()
					return
				}
			}
		}
		if sc.abort {
			panic(http.ErrAbortHandler)
		}
	})
}

func (sc attemptScript) bodyLen() int {
	n := 0
	for _, w := range sc.writes {
		n += w
	}
	return n
}

func (ex *exchange) request() *http.Request {
	u, err := url.Parse(ex.url)
	if err != nil {
		panic(err)
	}
	req := &http.Request{Method: ex.method, URL: u, Proto: "HTTP/1.1", ProtoMajor: 1, ProtoMinor: 1, Header: ex.header.Clone(), Host: u.Host,
		RemoteAddr: "10.0.0.1:1234", RequestURI: u.RequestURI()}
	req.Body = ex.reader
	if ex.chunked && ex.unframed {
		// a body that is streamed without a declared length and without chunked encoding (HTTP/2, or a request
		// handed on in-process by a middleware that replaced the body)
		req.ContentLength = -1
	} else if ex.chunked {
		req.ContentLength = -1
		req.TransferEncoding = []string{"chunked"}
	} else {
		req.ContentLength = int64(ex.bodyLen)
		if ex.declared > 0 {
			req.ContentLength = int64(ex.declared)
		}
	}
	ctx := context.Background()
	if ex.cancelled {
		c, cancel := context.WithCancel(ctx)
		cancel()
		ctx = c
	}
	return req.WithContext(ctx)
}

// run sends the exchange through b; a panic of the client writer is captured.
func (ex *exchange) run(b *buffer.Buffer) {
	ex.rec = simkit.NewRecorder()
	ex.rec.BreakAfter = ex.breakAfter
	var cw http.ResponseWriter = ex.rec
	switch ex.writerKind {
	case "hijack-refused":
		ex.rec.RefuseHijack = true
	case "plain":
		cw = simkit.Plain{R: ex.rec}
	}
	func() {
		defer func() { ex.panicked = recover() }()
		b.ServeHTTP(cw, ex.request())
	}()
}

// tempFiles lists leftover multibuf files in the process's temp dir.
func tempFiles() []string {
	ents, err := os.ReadDir(os.TempDir())
	if err != nil {
		return nil
	}
	var out []string
	for _, e := range ents {
		if strings.HasPrefix(e.Name(), "temp-multibuf-") {
			out = append(out, e.Name())
		}
	}
	sort.Strings(out)
	return out
}

// openSpillFDs lists file descriptors of this process that still point at a
// multibuf spill file (the request-side file is unlinked at creation, so only
// the descriptor shows that it is still held).
func openSpillFDs() []string {
	ents, err := os.ReadDir("/proc/self/fd")
	if err != nil {
		return nil
	}
	var out []string
	for _, e := range ents {
		if t, err := os.Readlink("/proc/self/fd/" + e.Name()); err == nil && strings.Contains(t, "temp-multibuf-") {
			out = append(out, t)
		}
	}
	return out
}

func cleanTemp() {
	for _, f := range tempFiles() {
		_ = os.Remove(os.TempDir() + "/" + f)
	}
}

func drawSizeAround(rt *rapid.T, label string, pivots ...int) int {
	p := pivots[rapid.IntRange(0, len(pivots)-1).Draw(rt, label+"-pivot")]
	switch rapid.IntRange(0, 7).Draw(rt, label+"-kind") {
	case 0:
		return 0
	case 1:
		return 1
	case 2:
		return p
	case 3:
		return p + 1
	case 4:
		if p > 0 {
			return p - 1
		}
		return 0
	case 5:
		return rapid.IntRange(0, 2*p+2).Draw(rt, label+"-any")
	case 6:
		return p + rapid.IntRange(0, 700).Draw(rt, label+"-above")
	default:
		return rapid.IntRange(0, 64).Draw(rt, label+"-small")
	}
}

func drawClientHeaders(rt *rapid.T) http.Header {
	h := http.Header{}
	if rapid.Bool().Draw(rt, "h-multi") {
		h["X-Multi"] = []string{"one", "two", "one"}
	}
	if rapid.Bool().Draw(rt, "h-ct") {
		h.Set("Content-Type", "application/octet-stream")
	}
	if rapid.Bool().Draw(rt, "h-cookie") {
		h.Add("Cookie", "a=1")
		h.Add("Cookie", "b=2")
	}
	if rapid.Bool().Draw(rt, "h-weird") {
		h["x-lower-case"] = []string{""}
	}
	// headers that mean something to some hop: a protocol upgrade the handler may decline, expectations, transfer hints
	if rapid.IntRange(0, 3).Draw(rt, "h-upgrade") == 0 {
		h.Set("Upgrade", rapid.SampledFrom([]string{"websocket", "h2c"}).Draw(rt, "upgrade-to"))
		h.Set("Connection", rapid.SampledFrom([]string{"Upgrade", "upgrade", "keep-alive, Upgrade"}).Draw(rt, "connection"))
	}
	if rapid.IntRange(0, 3).Draw(rt, "h-credentials") == 0 {
		h.Set("Authorization", "Bearer c2VjcmV0")
		if rapid.Bool().Draw(rt, "h-proxy-credentials") {
			h.Set("Proxy-Authorization", "Basic dTpw")
		}
	}
	if rapid.IntRange(0, 5).Draw(rt, "h-expect") == 0 {
		h.Set("Expect", "100-continue")
	}
	if rapid.IntRange(0, 5).Draw(rt, "h-te") == 0 {
		h.Set("Te", "trailers")
	}
	return h
}

func drawURL(rt *rapid.T) string {
	return rapid.SampledFrom([]string{"http://host/", "http://host/p/q?x=1&y=2", "http://u:p@host:8080/a%2Fb?q", "https://host/%C3%A9;v=1?a=b|c", "http://host"}).Draw(rt, "url")
}

func sameHeader(a, b http.Header) bool {
	if len(a) != len(b) {
		return false
	}
	return reflect.DeepEqual(map[string][]string(a), map[string][]string(b))
}

var errClientGone = errors.New("simulated: client went away")

func resetDisk() { simfs.Reset() }

// piecewiseReader delivers pieces[i] bytes b per Read (a piece larger than the caller's buffer takes several reads).
type piecewiseReader struct {
	b      byte
	pieces []int
}

func (p *piecewiseReader) Read(buf []byte) (int, error) {
	for len(p.pieces) > 0 && p.pieces[0] == 0 {
		p.pieces = p.pieces[1:]
	}
	if len(p.pieces) == 0 {
		return 0, io.EOF
	}
	n := p.pieces[0]
	if n > len(buf) {
		n = len(buf)
	}
	for i := 0; i < n; i++ {
		buf[i] = p.b
	}
	p.pieces[0] -= n
	return n, nil
}
