package bufsim

import (
	"fmt"

	"pgregory.net/rapid"
)

// retry expressions generated from the buffer's grammar, with an own evaluator

type rexpr struct {
	op    string // "&&", "||" or "" (atom)
	l, r  *rexpr
	fn    string // attempts, code, neterr, method
	cmp   string
	ival  int
	sval  string
	paren bool
}

func (e *rexpr) render(parentAnd bool) string {
	var s string
	switch {
	case e.op != "":
		s = e.l.render(e.op == "&&") + " " + e.op + " " + e.r.render(e.op == "&&")
	case e.fn == "attempts":
		s = fmt.Sprintf("Attempts() %s %d", e.cmp, e.ival)
	case e.fn == "code":
		s = fmt.Sprintf("ResponseCode() %s %d", e.cmp, e.ival)
	case e.fn == "neterr":
		s = "IsNetworkError()"
	default:
		s = fmt.Sprintf("RequestMethod() %s %q", e.cmp, e.sval)
	}
	if e.paren || (e.op == "||" && parentAnd) {
		return "(" + s + ")"
	}
	return s
}

func cmpI(v int, op string, c int) bool {
	switch op {
	case "==":
		return v == c
	case "!=":
		return v != c
	case "<":
		return v < c
	case "<=":
		return v <= c
	case ">":
		return v > c
	default:
		return v >= c
	}
}

func (e *rexpr) eval(attempt, code int, method string) bool {
	switch {
	case e.op == "&&":
		return e.l.eval(attempt, code, method) && e.r.eval(attempt, code, method)
	case e.op == "||":
		return e.l.eval(attempt, code, method) || e.r.eval(attempt, code, method)
	case e.fn == "attempts":
		return cmpI(attempt, e.cmp, e.ival)
	case e.fn == "code":
		return cmpI(code, e.cmp, e.ival)
	case e.fn == "neterr":
		return code == 502 || code == 504
	case e.cmp == "==":
		return method == e.sval
	default:
		return method != e.sval
	}
}

var sixCmps = []string{"==", "!=", "<", "<=", ">", ">="}

func drawRetryExpr(rt *rapid.T, depth int) *rexpr {
	if depth == 0 || rapid.IntRange(0, 2).Draw(rt, "r-leaf") == 0 {
		e := &rexpr{paren: rapid.IntRange(0, 5).Draw(rt, "r-paren") == 0}
		switch rapid.IntRange(0, 5).Draw(rt, "r-fn") {
		case 0, 1:
			e.fn, e.cmp, e.ival = "attempts", rapid.SampledFrom(sixCmps).Draw(rt, "r-cmp"), rapid.SampledFrom([]int{0, 1, 2, 3, 5, 9, 10, 11, 12}).Draw(rt, "r-n")
		case 2, 3:
			e.fn, e.cmp, e.ival = "code", rapid.SampledFrom(sixCmps).Draw(rt, "r-cmp"), rapid.SampledFrom([]int{200, 404, 500, 502, 503, 504, 0}).Draw(rt, "r-code")
		case 4:
			e.fn = "neterr"
		default:
			e.fn, e.cmp, e.sval = "method", rapid.SampledFrom([]string{"==", "!="}).Draw(rt, "r-scmp"), rapid.SampledFrom([]string{"GET", "POST", "PUT"}).Draw(rt, "r-method")
		}
		return e
	}
	return &rexpr{op: rapid.SampledFrom([]string{"&&", "||"}).Draw(rt, "r-op"), l: drawRetryExpr(rt, depth-1), r: drawRetryExpr(rt, depth-1), paren: rapid.IntRange(0, 5).Draw(rt, "r-paren") == 0}
}

// expectedInvocations: 1 + the number of leading attempts for which the
// expression is true, at most 11. An attempt that chose no status is a 200
// for the client; whether the expression sees 200 or "no code" (0) for it is
// not fixed by the statement, so both readings are returned.
func expectedInvocations(e *rexpr, method string, codes func(attempt int) (int, bool)) (int, int) {
	count := func(noCode int) int {
		n := 1
		for a := 1; a <= 10; a++ {
			code, chosen := codes(a)
			if !chosen {
				code = noCode
			}
			if e == nil || !e.eval(a, code, method) {
				break
			}
			n++
		}
		return n
	}
	return count(200), count(0)
}
