package clock

// Added to the scratch copy of the clock package by verifctl (never to /repo).
// The stock frozen clock takes a mutex on every read, which under the race
// detector would order all clock readers with one another and hide races in
// the code under test. This provider is a plain field read in //go:norace
// functions; it is written only by the simulation coordinator between steps.

import "time"

type simTime struct {
	now  time.Time
	tick func() time.Duration // when set: time that passes before each read (a running clock is not frozen between two reads)
}

//go:norace
func (s *simTime) Now() time.Time {
	if s.tick != nil {
		s.now = s.now.Add(s.tick())
	}
	return s.now
}

func (s *simTime) Sleep(time.Duration)                    { panic("simclock: Sleep") }
func (s *simTime) After(time.Duration) <-chan time.Time   { panic("simclock: After") }
func (s *simTime) NewTimer(time.Duration) Timer           { panic("simclock: NewTimer") }
func (s *simTime) AfterFunc(time.Duration, func()) Timer  { panic("simclock: AfterFunc") }
func (s *simTime) NewTicker(time.Duration) Ticker         { panic("simclock: NewTicker") }
func (s *simTime) Tick(time.Duration) <-chan time.Time    { panic("simclock: Tick") }
func (s *simTime) Wait4Scheduled(int, time.Duration) bool { panic("simclock: Wait4Scheduled") }

var simClock *simTime

// SimFreeze installs the lock-free simulated clock.
//
//go:norace
func SimFreeze(t time.Time) {
	simClock = &simTime{now: t}
	provider = simClock
}

// SimAdvance moves the simulated clock forward.
//
//go:norace
func SimAdvance(d time.Duration) { simClock.now = simClock.now.Add(d) }

// SimUnfreeze restores the real clock.
//
//go:norace
func SimUnfreeze() { provider = realtime }

// SimTick makes time pass before every clock read (nil: stop). Only for
// single-goroutine simulations: the callback runs in the reader.
//
//go:norace
func SimTick(f func() time.Duration) { simClock.tick = f }

// SimPeek reads the simulated clock without letting time pass.
//
//go:norace
func SimPeek() time.Time { return simClock.now }
