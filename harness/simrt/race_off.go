//go:build !race

package simrt

// RaceEnabled reports whether the binary was built with -race.
const RaceEnabled = false

func sendEvent(s *Sim, e event) { s.events <- e }

func raceGo(f func()) { go f() }

// RaceErrors is the number of race reports so far (always 0 without -race).
func RaceErrors() int { return 0 }
