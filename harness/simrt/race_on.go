//go:build race

package simrt

import "runtime"

// RaceEnabled reports whether the binary was built with -race.
const RaceEnabled = true

// sendEvent is the task -> coordinator half of a handoff. Its synchronisation
// is hidden from the race detector (memory accesses are still tracked), so the
// only happens-before edges between tasks are those made by the locks of the
// code under test, in the order the simulator chose.
//
//go:norace
func sendEvent(s *Sim, e event) {
	runtime.RaceDisable()
	s.events <- e
	runtime.RaceEnable()
}

//go:norace
func raceGo(f func()) { go f() }

// RaceErrors is the number of race reports so far.
func RaceErrors() int { return runtime.RaceErrors() }
