// Package simrt is the cooperative scheduler of the oxy simulation harness.
//
// Tasks are real goroutines, but exactly one of {coordinator, some task} runs
// at any time. A task can be descheduled only at a yield point: before a lock
// acquisition, after a lock release (both inserted into a scratch copy of oxy
// by /verif/tools/instrument), at simrt.Go, and at harness-level parks.
// Which task runs next is decided by the coordinator through a Chooser, which
// the harnesses back with rapid draws, so one seed is one exact execution.
//
// With no simulation active on the calling goroutine every wrapper is the plain
// sync call / a plain go statement.
package simrt

import (
	"fmt"
	"os"
	"reflect"
	"runtime"
	"strings"
	"sync"
	"sync/atomic"
	"syscall"
	"time"
)

// Chooser picks one of n enabled alternatives (0 <= result < n).
type Chooser func(n int, label string) int

type taskState int

const (
	stRunnable taskState = iota
	stWantLock
	stParked
	stDone
)

type lockMode int

const (
	modeW lockMode = iota
	modeR
)

// Task is one simulated thread of control.
type Task struct {
	ID     int
	Name   string
	sim    *Sim
	wake   chan struct{}
	state  taskState
	killed bool
	tdHeld map[any]int // locks acquired while unwinding (teardown), by lock key
	// lock the task is about to take (stWantLock)
	wantLock any
	wantMode lockMode
	// harness park
	parkKey string
	parkVal any
	// result
	Panic     any
	PanicSite string
	// sequence number of the most recent lock acquisition by this task
	LastAcq uint64
	// number of lock acquisitions by this task
	Acqs int
	// sequence number of the step in which this task last released a lock
	LastRel uint64
	// arbitrary harness data
	Data any
	held int
	// requests of the task to the coordinator, written by the task just
	// before it yields and consumed by the coordinator just after
	relLock any
	relMode lockMode
	hasRel  bool
	spawnFn func()
}

type evKind int

const (
	evYield evKind = iota
	evDone
)

type event struct {
	t    *Task
	kind evKind
}

type lockState struct {
	writer  *Task
	readers map[*Task]int
}

// Sim is one simulation run. Create with New, tear down with Shutdown.
type Sim struct {
	tasks   []*Task
	events  chan event
	cur     *Task
	locks   map[any]*lockState
	Seq     uint64
	Steps   uint64
	Fine    bool // free choice at every yield point
	Choose  Chooser
	MaxStep uint64
	// hooks
	OnSpawn   func(t *Task)
	AfterStep func(t *Task) // called on the coordinator after every step of any task
	// digest of everything observable (order of steps, harness events)
	digest uint64
	TraceF func(format string, args ...any) // optional human-readable trace
	// statistics
	Switches   uint64 // decisions where a different task than the previous one was chosen
	Decisions  uint64 // decisions with more than one alternative
	LockWaits  uint64 // times a task was found blocked on a held lock
	MaxOverlap int
	last       *Task
	shutdown   bool
}

var (
	active   atomic.Pointer[Sim]
	progress atomic.Uint64
	inRun    atomic.Bool
	wdOnce   sync.Once
)

// WatchdogSeconds is how long a simulation may go without a scheduler step.
var WatchdogSeconds = 30

// LivelockInfo is printed by the watchdog when the code under test spins
// without reaching a yield point (set by the harness: seed of the current batch).
var LivelockInfo atomic.Value

// hangInCodeUnderTest looks for a running/runnable task goroutine whose
// innermost frame is in vulcand/oxy proper (not in the harness).
//
//go:norace
func hangInCodeUnderTest(stacks string) (bool, string) {
	for _, block := range strings.Split(stacks, "\n\n") {
		if !strings.Contains(block, "simrt.(*Sim).Spawn.func1") {
			continue
		}
		lines := strings.Split(block, "\n")
		if len(lines) < 2 || !(strings.Contains(lines[0], "[running]") || strings.Contains(lines[0], "[runnable]")) {
			continue
		}
		// innermost frame that is not the Go runtime / standard library
		for _, fn := range lines[1:] {
			if strings.HasPrefix(fn, "\t") || strings.HasPrefix(fn, "created by") {
				continue
			}
			if strings.Contains(fn, "/zzverif/") {
				return false, fn
			}
			if strings.HasPrefix(fn, "github.com/vulcand/oxy/v2/") {
				return true, fn
			}
		}
	}
	return false, ""
}

// blockedInCodeUnderTest looks for a goroutine that is blocked on a lock or semaphore with its innermost frame
// (below the runtime, sync and the simulator's own lock wrappers) in oxy proper: a lock that the code under test
// waits for and nobody will release (a self-deadlock, for instance).
func blockedInCodeUnderTest(stacks string) (bool, string) {
	for _, block := range strings.Split(stacks, "\n\n") {
		lines := strings.Split(block, "\n")
		if len(lines) < 2 || !strings.HasPrefix(lines[0], "goroutine ") {
			continue
		}
		if !(strings.Contains(lines[0], "[sync.") || strings.Contains(lines[0], "[semacquire")) {
			continue
		}
		for _, fn := range lines[1:] {
			if strings.HasPrefix(fn, "\t") || strings.HasPrefix(fn, "created by") {
				continue
			}
			if strings.HasPrefix(fn, "sync.") || strings.HasPrefix(fn, "runtime.") || strings.HasPrefix(fn, "internal/") || strings.Contains(fn, "/zzverif/simrt.") {
				continue
			}
			if strings.HasPrefix(fn, "github.com/vulcand/oxy/v2/") && !strings.Contains(fn, "/zzverif/") {
				return true, fn
			}
			break
		}
	}
	return false, ""
}

// processCPU is the processor time (user + system) this process has used so far.
//
//go:norace
func processCPU() time.Duration {
	var ru syscall.Rusage
	if err := syscall.Getrusage(syscall.RUSAGE_SELF, &ru); err != nil {
		return 0
	}
	return time.Duration(ru.Utime.Nano() + ru.Stime.Nano())
}

// somebodyCouldRun reports whether a goroutine other than the caller is running or ready to run.
func somebodyCouldRun() bool {
	buf := make([]byte, 1<<20)
	n := runtime.Stack(buf, true)
	first := true
	for _, block := range strings.Split(string(buf[:n]), "\n\n") {
		if !strings.HasPrefix(block, "goroutine ") {
			continue
		}
		if first { // the caller itself
			first = false
			continue
		}
		head := block
		if i := strings.IndexByte(head, '\n'); i >= 0 {
			head = head[:i]
		}
		if strings.Contains(head, "[running") || strings.Contains(head, "[runnable") {
			return true
		}
	}
	return false
}

func startWatchdog() {
	wdOnce.Do(func() {
		if v := os.Getenv("VERIF_WATCHDOG_S"); v != "" {
			fmt.Sscanf(v, "%d", &WatchdogSeconds)
		}
		go func() {
			var last uint64
			idle := 0
			var cpuAtIdleStart time.Duration
			extensions := 0
			for {
				time.Sleep(time.Second)
				if !inRun.Load() {
					idle = 0
					continue
				}
				p := progress.Load()
				if p == last {
					if idle == 0 {
						cpuAtIdleStart = processCPU()
					}
					idle++
				} else {
					idle = 0
					extensions = 0
					last = p
				}
				if idle >= WatchdogSeconds {
					// A task that spins burns processor time, and a deadlock has no goroutine that could run. A process
					// that has a goroutine ready to run and yet got next to no processor time in all that time is
					// being starved by the machine, not stuck: give it more wall-clock time (bounded).
					if used := processCPU() - cpuAtIdleStart; used < time.Duration(WatchdogSeconds)*time.Second/4 && extensions < 20 && somebodyCouldRun() {
						extensions++
						idle = WatchdogSeconds / 2
						continue
					}
					buf := make([]byte, 1<<20)
					n := runtime.Stack(buf, true)
					if under, fn := hangInCodeUnderTest(string(buf[:n])); under {
						fmt.Fprintf(os.Stderr, "VERIF-LIVELOCK %v\n", LivelockInfo.Load())
						fmt.Fprintf(os.Stderr, "VERIF-DETAIL kind=livelock: a task ran for %d s inside %s without reaching a yield point or returning\n", idle, fn)
						fmt.Fprintf(os.Stderr, "VERIF-FAIL kind=livelock\n")
						os.Stderr.Write(buf[:n])
						os.Exit(3)
					}
					if under, fn := blockedInCodeUnderTest(string(buf[:n])); under {
						fmt.Fprintf(os.Stderr, "VERIF-LIVELOCK %v\n", LivelockInfo.Load())
						fmt.Fprintf(os.Stderr, "VERIF-DETAIL kind=livelock: for %d s a goroutine has been waiting inside %s for a lock that nobody is going to release\n", idle, fn)
						fmt.Fprintf(os.Stderr, "VERIF-FAIL kind=livelock\n")
						os.Stderr.Write(buf[:n])
						os.Exit(3)
					}
					fmt.Fprintf(os.Stderr, "VERIF-WATCHDOG: no scheduler progress for %d s\n", idle)
					os.Stderr.Write(buf[:n])
					os.Exit(2)
				}
			}
		}()
	})
}

// New starts a simulation. Only one may be active per process.
//
//go:norace
func New(choose Chooser) *Sim {
	s := &Sim{
		events:  make(chan event),
		locks:   make(map[any]*lockState),
		Choose:  choose,
		MaxStep: 200000,
		digest:  14695981039346656037,
	}
	if !active.CompareAndSwap(nil, s) {
		panic("simrt: a simulation is already active")
	}
	startWatchdog()
	inRun.Store(true)
	return s
}

// Active returns the running simulation or nil.
//
//go:norace
func Active() *Sim { return active.Load() }

// Current returns the task that is running now (nil on the coordinator).
//
//go:norace
func (s *Sim) Current() *Task { return s.cur }

// Tasks returns all tasks spawned so far.
//
//go:norace
func (s *Sim) Tasks() []*Task { return s.tasks }

//go:norace
func (s *Sim) mix(v uint64) {
	s.digest ^= v
	s.digest *= 1099511628211
}

// Note folds values into the run digest (and the trace, if enabled).
//
//go:norace
func (s *Sim) Note(tag string, vals ...int64) {
	for i := 0; i < len(tag); i++ {
		s.mix(uint64(tag[i]))
	}
	for _, v := range vals {
		s.mix(uint64(v))
	}
	if s.TraceF != nil {
		s.TraceF("  [seq %d] %s %v", s.Seq, tag, vals)
	}
}

// NoteStr folds a string into the digest.
//
//go:norace
func (s *Sim) NoteStr(tag, val string) {
	for i := 0; i < len(tag); i++ {
		s.mix(uint64(tag[i]))
	}
	for i := 0; i < len(val); i++ {
		s.mix(uint64(val[i]))
	}
	s.mix(0xff)
	if s.TraceF != nil {
		s.TraceF("  [seq %d] %s %q", s.Seq, tag, val)
	}
}

// Digest is the hash of the run so far.
//
//go:norace
func (s *Sim) Digest() uint64 { return s.digest }

// Spawn creates a task; it does not run until the coordinator schedules it.
//
//go:norace
func (s *Sim) Spawn(name string, fn func()) *Task {
	t := &Task{ID: len(s.tasks), Name: name, sim: s, wake: make(chan struct{}), state: stRunnable}
	s.tasks = append(s.tasks, t)
	if s.OnSpawn != nil {
		s.OnSpawn(t)
	}
	raceGo(func() {
		<-t.wake
		defer func() {
			// a task that is being torn down runs its deferred calls too, and those may panic (a deferred release that
			// logs through a broken sink): that panic ends with the task instead of with the process
			if r := recover(); r != nil && !t.killed {
				t.Panic = r
				buf := make([]byte, 4096)
				n := runtime.Stack(buf, false)
				t.PanicSite = string(buf[:n])
			}
			t.state = stDone
			sendEvent(s, event{t, evDone})
		}()
		if t.killed {
			return
		}
		fn()
	})
	return t
}

// yield hands control back to the coordinator. Called on a task goroutine.
//
//go:norace
func (t *Task) yield() {
	if t.killed {
		return
	}
	sendEvent(t.sim, event{t, evYield})
	<-t.wake
	if t.killed {
		runtime.Goexit()
	}
}

// resume runs task t until its next yield or its end. Coordinator only.
//
//go:norace
func (s *Sim) resume(t *Task) {
	if t.state == stDone {
		panic("simrt: resume of finished task")
	}
	if t.state == stWantLock {
		s.grant(t)
	}
	t.state = stRunnable
	s.cur = t
	s.Seq++
	s.Steps++
	progress.Add(1)
	t.wake <- struct{}{}
	ev := <-s.events
	s.cur = nil
	if ev.t != t {
		panic("simrt: event from a task that was not scheduled")
	}
	if t.hasRel {
		s.released(t, t.relLock, t.relMode)
		t.hasRel, t.relLock = false, nil
		t.LastRel = s.Seq
	}
	if t.spawnFn != nil {
		fn := t.spawnFn
		t.spawnFn = nil
		s.Spawn(fmt.Sprintf("%s/go%d", t.Name, len(s.tasks)), fn)
	}
	if s.AfterStep != nil {
		s.AfterStep(t)
	}
}

//go:norace
func (s *Sim) lockFree(l any, m lockMode) bool {
	ls := s.locks[l]
	if ls == nil {
		return true
	}
	if ls.writer != nil {
		return false
	}
	if m == modeW {
		return len(ls.readers) == 0
	}
	return true
}

// grant records that t now owns the lock it asked for.
//
//go:norace
func (s *Sim) grant(t *Task) {
	ls := s.locks[t.wantLock]
	if ls == nil {
		ls = &lockState{readers: map[*Task]int{}}
		s.locks[t.wantLock] = ls
	}
	if t.wantMode == modeW {
		ls.writer = t
	} else {
		ls.readers[t]++
	}
	t.held++
	t.LastAcq = s.Seq + 1
	t.Acqs++
	t.wantLock = nil
}

//go:norace
func (s *Sim) released(t *Task, l any, m lockMode) {
	ls := s.locks[l]
	if ls == nil {
		return
	}
	if m == modeW {
		if ls.writer == t {
			ls.writer = nil
			t.held--
		}
	} else if ls.readers[t] > 0 {
		ls.readers[t]--
		if ls.readers[t] == 0 {
			delete(ls.readers, t)
		}
		t.held--
	}
	if ls.writer == nil && len(ls.readers) == 0 {
		delete(s.locks, l)
	}
}

// Schedulable reports whether t could run now.
//
//go:norace
func (s *Sim) Schedulable(t *Task) bool {
	switch t.state {
	case stRunnable:
		return true
	case stWantLock:
		return s.lockFree(t.wantLock, t.wantMode)
	}
	return false
}

// Runnable lists the tasks that could run now, the most recently run one first.
//
//go:norace
func (s *Sim) Runnable() []*Task {
	var out []*Task
	if s.last != nil && s.Schedulable(s.last) {
		out = append(out, s.last)
	}
	for _, t := range s.tasks {
		if t != s.last && s.Schedulable(t) {
			out = append(out, t)
		}
	}
	return out
}

// Blocked lists tasks waiting for a lock that is held.
//
//go:norace
func (s *Sim) Blocked() []*Task {
	var out []*Task
	for _, t := range s.tasks {
		if t.state == stWantLock && !s.lockFree(t.wantLock, t.wantMode) {
			out = append(out, t)
		}
	}
	return out
}

// Done reports whether the task has ended.
//
//go:norace
func (t *Task) Done() bool { return t.state == stDone }

// Parked reports whether the task sits in a harness park, and its key.
//
//go:norace
func (t *Task) Parked() (string, bool) { return t.parkKey, t.state == stParked }

// Step runs task t for one step (up to its next yield point).
//
//go:norace
func (s *Sim) Step(t *Task) {
	if s.last != t {
		s.Switches++
	}
	s.last = t
	s.mix(uint64(t.ID) + 1)
	if s.TraceF != nil {
		s.TraceF("  [seq %d] run %s", s.Seq+1, t.Name)
	}
	s.resume(t)
}

// RunTask runs t until it parks, blocks on a held lock, or ends (coarse mode:
// lock yield points are not preemption points).
//
//go:norace
func (s *Sim) RunTask(t *Task) {
	for s.Schedulable(t) {
		s.Step(t)
		if s.Steps > s.MaxStep {
			panic("simrt: step budget exceeded")
		}
	}
}

// StepChosen lets the chooser pick one runnable task and runs it one step
// (fine mode) or until it parks/ends (coarse mode). Returns false if nothing
// was runnable.
//
//go:norace
func (s *Sim) StepChosen() bool {
	r := s.Runnable()
	if len(r) == 0 {
		return false
	}
	i := 0
	if len(r) > 1 {
		s.Decisions++
		i = s.Choose(len(r), "sched")
	}
	if s.Fine {
		s.Step(r[i])
	} else {
		s.RunTask(r[i])
	}
	if len(s.Blocked()) > 0 {
		s.LockWaits++
	}
	return true
}

// Quiesce runs tasks (chooser-driven) until none is runnable.
//
//go:norace
func (s *Sim) Quiesce() {
	for s.StepChosen() {
		if s.Steps > s.MaxStep {
			panic("simrt: step budget exceeded")
		}
	}
}

// Deadlocked: nothing runnable, yet some task waits for a lock.
//
//go:norace
func (s *Sim) Deadlocked() bool {
	return len(s.Runnable()) == 0 && len(s.Blocked()) > 0
}

// Park blocks the calling task until the coordinator calls Unpark; returns the
// value passed to Unpark. Must be called on a task goroutine.
//
//go:norace
func (s *Sim) Park(key string) any {
	t := s.cur
	if t == nil {
		panic("simrt: Park outside a task")
	}
	t.state = stParked
	t.parkKey = key
	t.yield()
	v := t.parkVal
	t.parkVal = nil
	return v
}

// Unpark makes a parked task runnable again (it does not run it).
//
//go:norace
func (s *Sim) Unpark(t *Task, val any) {
	if t.state != stParked {
		panic("simrt: Unpark of a task that is not parked")
	}
	t.parkVal = val
	t.parkKey = ""
	t.state = stRunnable
}

// Yield is a plain preemption point for harness code running in a task.
//
//go:norace
func (s *Sim) Yield() {
	if t := s.cur; t != nil {
		t.yield()
	}
}

// Shutdown unwinds all unfinished tasks (deferred code still runs) and
// deactivates the simulation.
//
//go:norace
func (s *Sim) Shutdown() {
	if s.shutdown {
		return
	}
	s.shutdown = true
	// lock holders first, so that their release precedes anybody's deferred acquire
	for pass := 0; pass < 2; pass++ {
		for _, t := range s.tasks {
			if t.state == stDone || (pass == 0 && t.held == 0) {
				continue
			}
			t.killed = true
			s.cur = t
			t.wake <- struct{}{}
			<-s.events
			s.cur = nil
		}
	}
	inRun.Store(false)
	active.CompareAndSwap(s, nil)
}

// ---------------------------------------------------------------------------
// wrappers inserted by the instrumenter

//go:norace
func curTask() *Task {
	s := active.Load()
	if s == nil {
		return nil
	}
	return s.cur
}

//go:norace
func rawLock(l any, m lockMode) {
	switch x := l.(type) {
	case *sync.Mutex:
		x.Lock()
	case **sync.Mutex:
		(*x).Lock()
	case *sync.RWMutex:
		if m == modeW {
			x.Lock()
		} else {
			x.RLock()
		}
	case **sync.RWMutex:
		if m == modeW {
			(*x).Lock()
		} else {
			(*x).RLock()
		}
	default:
		name := "Lock"
		if m == modeR {
			name = "RLock"
		}
		reflect.ValueOf(l).Elem().MethodByName(name).Call(nil)
	}
}

//go:norace
func rawTryLock(l any, m lockMode) bool {
	switch x := l.(type) {
	case *sync.Mutex:
		return x.TryLock()
	case **sync.Mutex:
		return (*x).TryLock()
	case *sync.RWMutex:
		if m == modeW {
			return x.TryLock()
		}
		return x.TryRLock()
	case **sync.RWMutex:
		if m == modeW {
			return (*x).TryLock()
		}
		return (*x).TryRLock()
	}
	rawLock(l, m)
	return true
}

//go:norace
func rawUnlock(l any, m lockMode) {
	switch x := l.(type) {
	case *sync.Mutex:
		x.Unlock()
	case **sync.Mutex:
		(*x).Unlock()
	case *sync.RWMutex:
		if m == modeW {
			x.Unlock()
		} else {
			x.RUnlock()
		}
	case **sync.RWMutex:
		if m == modeW {
			(*x).Unlock()
		} else {
			(*x).RUnlock()
		}
	default:
		name := "Unlock"
		if m == modeR {
			name = "RUnlock"
		}
		reflect.ValueOf(l).Elem().MethodByName(name).Call(nil)
	}
}

// key identifies the mutex object itself (not the pointer-to-pointer).
//
//go:norace
func key(l any) any {
	switch x := l.(type) {
	case **sync.Mutex:
		return *x
	case **sync.RWMutex:
		return *x
	}
	return l
}

//go:norace
func doLock(l any, m lockMode) {
	t := curTask()
	if t == nil {
		rawLock(l, m)
		return
	}
	if t.killed {
		// unwinding: never park; the holder, if any, is unwinding too
		deadline := time.Now().Add(20 * time.Second)
		for !rawTryLock(l, m) {
			runtime.Gosched()
			if time.Now().After(deadline) {
				fmt.Fprintln(os.Stderr, "VERIF-WATCHDOG: lock not released during teardown")
				os.Exit(2)
			}
		}
		if t.tdHeld == nil {
			t.tdHeld = map[any]int{}
		}
		t.tdHeld[key(l)]++
		return
	}
	t.state = stWantLock
	t.wantLock = key(l)
	t.wantMode = m
	t.yield() // the coordinator resumes us only when the lock is free, and records ownership
	if !rawTryLock(l, m) {
		// Someone outside the simulation holds it (or bookkeeping is wrong).
		panic(fmt.Sprintf("simrt: lock %T granted by the scheduler but not free", l))
	}
}

//go:norace
func doUnlock(l any, m lockMode) {
	t := curTask()
	if t != nil && t.killed {
		// Unwinding. A deferred release may belong to a lock the task had dropped for a while when it was stopped
		// (unlock - call out - lock again, inside a function that releases by defer): in a real execution the task would
		// have gone on to re-acquire it; here it is torn down in between, and releasing a lock nobody holds would end the
		// process. Release only what the book (or the unwinding itself) says this task holds.
		k := key(l)
		if t.tdHeld[k] > 0 {
			t.tdHeld[k]--
			rawUnlock(l, m)
			return
		}
		if ls := t.sim.locks[k]; ls != nil && ((m == modeW && ls.writer == t) || (m == modeR && ls.readers[t] > 0)) {
			t.sim.released(t, k, m)
			rawUnlock(l, m)
		}
		return
	}
	rawUnlock(l, m)
	if t == nil {
		return
	}
	t.relLock, t.relMode, t.hasRel = key(l), m, true
	t.yield()
}

// Lock replaces X.Lock() as simrt.Lock(&X).
//
//go:norace
func Lock(l any) { doLock(l, modeW) }

// Unlock replaces X.Unlock().
//
//go:norace
func Unlock(l any) { doUnlock(l, modeW) }

// RLock replaces X.RLock().
//
//go:norace
func RLock(l any) { doLock(l, modeR) }

// RUnlock replaces X.RUnlock().
//
//go:norace
func RUnlock(l any) { doUnlock(l, modeR) }

// Go replaces a go statement: inside a simulation the function becomes a task.
//
//go:norace
func Go(fn func()) {
	t := curTask()
	if t == nil || t.killed {
		go fn()
		return
	}
	t.spawnFn = fn
	t.yield()
}

// SetResult / Result pass a value from a task to the coordinator without the
// race detector looking (the hand-off itself is hidden in race mode).
//
//go:norace
func (t *Task) SetResult(v any) { t.Data = v }

//go:norace
func (t *Task) Result() any { return t.Data }

// LocksHeld is the number of locks of the code under test currently held by tasks.
//
//go:norace
func (s *Sim) LocksHeld() int { return len(s.locks) }

// WriteLocksHeld is the number of locks currently held exclusively by a task.
//
//go:norace
func (s *Sim) WriteLocksHeld() int {
	n := 0
	for _, l := range s.locks {
		if l.writer != nil {
			n++
		}
	}
	return n
}
