package racesim

import (
	"bytes"
	"errors"
	"fmt"
	"github.com/vulcand/oxy/v2/internal/holsterv4/collections"
	"io"
	"net/http"
	"net/url"
	"os"
	"regexp"
	"sort"
	"strings"
	"sync"
	"testing"
	"time"

	"github.com/vulcand/oxy/v2/buffer"
	"github.com/vulcand/oxy/v2/cbreaker"
	"github.com/vulcand/oxy/v2/connlimit"
	"github.com/vulcand/oxy/v2/internal/holsterv4/clock"
	"github.com/vulcand/oxy/v2/memmetrics"
	"github.com/vulcand/oxy/v2/ratelimit"
	"github.com/vulcand/oxy/v2/roundrobin"
	"github.com/vulcand/oxy/v2/stream"
	"github.com/vulcand/oxy/v2/trace"
	"github.com/vulcand/oxy/v2/utils"
	"github.com/vulcand/oxy/v2/zzverif/simkit"
	"github.com/vulcand/oxy/v2/zzverif/simrt"
	"pgregory.net/rapid"
)

var components = map[string][]string{
	"real": {"connlimit", "ratelimit + TTLMap", "roundrobin.RoundRobin", "roundrobin.Rebalancer with its default meters", "cbreaker + memmetrics.RTMetrics", "memmetrics.RTMetrics used directly", "trace", "buffer", "stream",
		"Go race detector (happens-before analysis of every memory access of the instrumented binary)"},
	"simulated": {"goroutine scheduling (simrt: one task at a time, order of critical sections chosen from the seed; the task->coordinator half of every handoff is hidden from the race detector, so the only happens-before edges between tasks are those of oxy's own locks)",
		"clock (lock-free simulated provider added to the scratch copy of the clock package)", "innermost handler (stateless: status from a request header)", "trace output writer (mutex-protected, owned by the caller)"},
}

// stateless innermost handler
var bottom = http.HandlerFunc(func(w http.ResponseWriter, req *http.Request) {
	code := 200
	switch req.Header.Get("X-Code") {
	case "500":
		code = 500
	case "502":
		code = 502
	case "404":
		code = 404
	case "abort":
		panic(http.ErrAbortHandler) // what a reverse proxy does when its backend dies in mid-response
	}
	w.WriteHeader(code)
	_, _ = w.Write([]byte("ok"))
})

// lockedWriter is the caller's trace sink: safe for concurrent use, and (by
// draw) broken now and then the way a pipe or a full disk is.
type lockedWriter struct {
	mu        sync.Mutex
	buf       bytes.Buffer
	failEvery int // every n-th write is refused (0: never)
	n         int
}

func (l *lockedWriter) Write(p []byte) (int, error) {
	l.mu.Lock()
	defer l.mu.Unlock()
	l.n++
	if l.failEvery > 0 && l.n%l.failEvery == 0 {
		return 0, io.ErrClosedPipe
	}
	if l.buf.Len() > 1<<16 {
		l.buf.Reset()
	}
	return l.buf.Write(p)
}

type failingEffect struct{}

func (failingEffect) Exec() error { return errors.New("simulated: webhook unreachable") }

type op func()

// newReq is called inside the task: every request object is private to its task
func newReq(src, code string) *http.Request {
	return &http.Request{Method: "GET", URL: &url.URL{Scheme: "http", Host: "client", Path: "/"}, Proto: "HTTP/1.1", ProtoMajor: 1, ProtoMinor: 1,
		Header: http.Header{"Src": []string{src}, "X-Code": []string{code}}, Host: "client", RemoteAddr: src + ":1234", Body: http.NoBody}
}

func serve(h http.Handler, src, code string) op {
	return func() {
		defer func() { // as net/http's server does for each request
			if p := recover(); p != nil && p != http.ErrAbortHandler {
				panic(p)
			}
		}()
		h.ServeHTTP(simkit.NewRecorder(), newReq(src, code))
	}
}

var srvURLs = []string{"http://a", "http://b", "http://c", "http://d"}

func mustURL(s string) *url.URL {
	u, err := url.Parse(s)
	if err != nil {
		panic(err)
	}
	return u
}

type balancer interface {
	UpsertServer(u *url.URL, options ...roundrobin.ServerOption) error
	RemoveServer(u *url.URL) error
	Servers() []*url.URL
}

// opsFor draws one operation against the target built for this run
type target struct {
	name   string
	h      http.Handler
	draw   func(rt *rapid.T) op
	breaks bool // uses the breaker: let the clock move
	// audit, if set, runs as one more task after all others have finished (so that it only synchronises with them
	// through the locks of the code under test) and returns a description of lost updates, or ""
	audit func() string
}

func drawCode(rt *rapid.T) string {
	return rapid.SampledFrom([]string{"200", "200", "500", "502", "404"}).Draw(rt, "code")
}
func drawSrc(rt *rapid.T) string {
	return rapid.SampledFrom([]string{"10.0.0.1", "10.0.0.2", "10.0.0.3"}).Draw(rt, "src")
}

func balancerOps(rt *rapid.T, h http.Handler, rr *roundrobin.RoundRobin, adm balancer) op {
	switch rapid.IntRange(0, 9).Draw(rt, "lb-op") {
	case 0:
		u := mustURL(rapid.SampledFrom(srvURLs).Draw(rt, "url"))
		w := rapid.IntRange(0, 4).Draw(rt, "w")
		return func() { _ = adm.UpsertServer(u, roundrobin.Weight(w)) }
	case 1:
		u := mustURL(rapid.SampledFrom(srvURLs).Draw(rt, "url"))
		return func() { _ = adm.RemoveServer(u) }
	case 2:
		u := mustURL(rapid.SampledFrom(srvURLs).Draw(rt, "url"))
		return func() { _, _ = rr.ServerWeight(u) }
	case 3:
		return func() {
			for _, u := range adm.Servers() {
				_ = u.String()
			}
		}
	case 4:
		return func() { _, _ = rr.NextServer() }
	default:
		return serve(h, drawSrc(rt), drawCode(rt))
	}
}

func metricsOps(rt *rapid.T, m, peer *memmetrics.RTMetrics) op {
	switch rapid.IntRange(0, 11).Draw(rt, "m-op") {
	case 10:
		// one set of metrics is folded into another while both go on recording
		return func() { _ = m.Append(peer) }
	case 11:
		code := rapid.SampledFrom([]int{200, 502}).Draw(rt, "peer-code")
		return func() { peer.Record(code, 3*time.Millisecond) }
	case 0:
		return func() { _ = m.TotalCount() }
	case 1:
		return func() { _ = m.NetworkErrorRatio() }
	case 2:
		return func() { _ = m.ResponseCodeRatio(500, 600, 200, 600) }
	case 3:
		return func() { _ = m.StatusCodesCounts() }
	case 4:
		// the answer is read, as the breaker's latency predicates and any dashboard do, after the call has returned
		return func() {
			if h, err := m.LatencyHistogram(); err == nil && h != nil {
				_ = h.LatencyAtQuantile(50)
				_ = h.ValueAtQuantile(99)
			}
		}
	case 5:
		// a snapshot is taken and read while the live metrics go on recording
		return func() {
			snap := m.Export()
			_ = snap.TotalCount()
			_ = snap.StatusCodesCounts()
			_ = snap.NetworkErrorCount()
		}
	case 6:
		return func() { _ = m.NetworkErrorCount() }
	default:
		code := rapid.SampledFrom([]int{200, 500, 502, 504}).Draw(rt, "rec-code")
		d := time.Duration(rapid.IntRange(1, 500).Draw(rt, "rec-ms")) * time.Millisecond
		return func() { m.Record(code, d) }
	}
}

func buildTarget(rt *rapid.T) target {
	extract, _ := utils.NewExtractor("request.header.Src")
	kind := rapid.SampledFrom([]string{"connlimit", "ratelimit", "roundrobin", "rebalancer", "roundrobin-sticky", "rebalancer-sticky", "cbreaker", "rtmetrics", "rtmetrics-count", "ttlmap-count", "trace", "stack", "stack"}).Draw(rt, "target")
	if only := simkit.Only(); only != "" {
		kind = only
	}
	must := func(err error) {
		if err != nil {
			rt.Fatalf("%s: %v", kind, err)
		}
	}
	newRR := func(next http.Handler) *roundrobin.RoundRobin {
		rr, err := roundrobin.New(next)
		must(err)
		return rr
	}
	rates := func() *ratelimit.RateSet {
		rs := ratelimit.NewRateSet()
		must(rs.Add(time.Second, 2, 3))
		return rs
	}
	switch kind {
	case "connlimit":
		// the handler can be asked (X-Nest) to send a second request of the same source through the limiter while it
		// holds its own slot: how the audit finds out, after everything has ended, whether both slots are back
		var cl *connlimit.ConnLimiter
		nest := http.HandlerFunc(func(w http.ResponseWriter, req *http.Request) {
			if req.Header.Get("X-Nest") != "" {
				rec := simkit.NewRecorder()
				cl.ServeHTTP(rec, newReq(req.Header.Get("Src"), "200"))
				w.Header().Set("X-Nested", fmt.Sprint(rec.Status))
			}
			bottom.ServeHTTP(w, req)
		})
		cl, err := connlimit.New(nest, extract, 2, connlimit.Logger(simkit.SlowLogger{}))
		must(err)
		return target{name: kind, h: cl, draw: func(rt *rapid.T) op {
			code := drawCode(rt)
			if rapid.IntRange(0, 3).Draw(rt, "handler-aborts") == 0 {
				code = "abort"
			}
			return serve(cl, drawSrc(rt), code)
		}, audit: func() string {
			for _, src := range []string{"10.0.0.1", "10.0.0.2", "10.0.0.3"} {
				rec := simkit.NewRecorder()
				req := newReq(src, "200")
				req.Header.Set("X-Nest", "1")
				cl.ServeHTTP(rec, req)
				if rec.Status != 200 || rec.H.Get("X-Nested") != "200" {
					return fmt.Sprintf("all requests have ended, yet of two overlapping requests of source %s (limit 2) the first is answered %d and the second %q: a decrement of its connection count was lost", src, rec.Status, rec.H.Get("X-Nested"))
				}
			}
			return ""
		}}
	case "ratelimit":
		tl, err := ratelimit.New(bottom, extract, rates(), ratelimit.Capacity(2), ratelimit.Logger(simkit.SlowLogger{}))
		must(err)
		return target{name: kind, h: tl, breaks: true, draw: func(rt *rapid.T) op { return serve(tl, drawSrc(rt), drawCode(rt)) }}
	case "roundrobin":
		rr := newRR(bottom)
		must(rr.UpsertServer(mustURL("http://a")))
		must(rr.UpsertServer(mustURL("http://b"), roundrobin.Weight(2)))
		// a second balancer from the same constructor is used next to it: two instances share nothing
		rr2 := newRR(bottom)
		must(rr2.UpsertServer(mustURL("http://n1")))
		return target{name: kind, h: rr, draw: func(rt *rapid.T) op {
			if rapid.IntRange(0, 3).Draw(rt, "on-neighbour") == 0 {
				return balancerOps(rt, rr2, rr2, rr2)
			}
			return balancerOps(rt, rr, rr, rr)
		}}
	case "rebalancer":
		rr := newRR(bottom)
		rb, err := roundrobin.NewRebalancer(rr, roundrobin.RebalancerBackoff(time.Millisecond), roundrobin.RebalancerLogger(simkit.SlowLogger{}), roundrobin.RebalancerDebug(true))
		must(err)
		must(rb.UpsertServer(mustURL("http://a")))
		must(rb.UpsertServer(mustURL("http://b")))
		return target{name: kind, h: rb, breaks: true, draw: func(rt *rapid.T) op { return balancerOps(rt, rb, rr, rb) }}
	case "roundrobin-sticky", "rebalancer-sticky":
		// affinity cookies for members, former members and nobody, racing with pool changes
		cookie := func(rt *rapid.T) string {
			return rapid.SampledFrom([]string{"", "http://a", "http://b", "http://c", "http://zzz", "%%%"}).Draw(rt, "cookie")
		}
		stickyServe := func(h http.Handler, src, code, c string) op {
			return func() {
				req := newReq(src, code)
				if c != "" {
					req.AddCookie(&http.Cookie{Name: "aff", Value: c})
				}
				h.ServeHTTP(simkit.NewRecorder(), req)
			}
		}
		if kind == "roundrobin-sticky" {
			rr, err := roundrobin.New(bottom, roundrobin.EnableStickySession(roundrobin.NewStickySession("aff")))
			must(err)
			must(rr.UpsertServer(mustURL("http://a")))
			must(rr.UpsertServer(mustURL("http://b"), roundrobin.Weight(2)))
			return target{name: kind, h: rr, draw: func(rt *rapid.T) op {
				if rapid.Bool().Draw(rt, "sticky-req") {
					return stickyServe(rr, drawSrc(rt), drawCode(rt), cookie(rt))
				}
				return balancerOps(rt, rr, rr, rr)
			}}
		}
		rr := newRR(bottom)
		rb, err := roundrobin.NewRebalancer(rr, roundrobin.RebalancerBackoff(time.Millisecond), roundrobin.RebalancerStickySession(roundrobin.NewStickySession("aff")))
		must(err)
		must(rb.UpsertServer(mustURL("http://a")))
		must(rb.UpsertServer(mustURL("http://b")))
		return target{name: kind, h: rb, breaks: true, draw: func(rt *rapid.T) op {
			if rapid.Bool().Draw(rt, "sticky-req") {
				return stickyServe(rb, drawSrc(rt), drawCode(rt), cookie(rt))
			}
			return balancerOps(rt, rb, rr, rb)
		}}
	case "cbreaker":
		cb, err := cbreaker.New(bottom, "NetworkErrorRatio() > 0.3 || ResponseCodeRatio(500, 600, 0, 600) > 0.5 || LatencyAtQuantileMS(50.0) > 1000",
			cbreaker.FallbackDuration(2*time.Millisecond), cbreaker.RecoveryDuration(3*time.Millisecond), cbreaker.CheckPeriod(time.Millisecond), cbreaker.Logger(simkit.SlowLogger{}),
			// side effects that fail: the breaker reports the failure from the goroutine it runs them in
			cbreaker.OnTripped(failingEffect{}), cbreaker.OnStandby(failingEffect{}))
		must(err)
		return target{name: kind, h: cb, breaks: true, draw: func(rt *rapid.T) op { return serve(cb, drawSrc(rt), drawCode(rt)) }}
	case "rtmetrics":
		m, err := memmetrics.NewRTMetrics()
		must(err)
		peer, err := memmetrics.NewRTMetrics()
		must(err)
		return target{name: kind, breaks: true, draw: func(rt *rapid.T) op {
			if rapid.IntRange(0, 4).Draw(rt, "on-peer") == 0 {
				return metricsOps(rt, peer, m)
			}
			return metricsOps(rt, m, peer)
		}}
	case "ttlmap-count":
		// The ttl map (the limiter's store; it has its own lock and is anchored in C09) used directly by concurrent
		// callers. Each key starts as an entry whose ttl has run out but which nobody has collected yet: readers that
		// find it expired remove it, writers renew it. Whatever the interleaving, the count of a key afterwards is the
		// number of increments made in this run (the first one restarts the expired entry, the others add to it).
		tm := collections.NewTTLMap(4)
		keys := []string{"k0", "k1"}
		for _, k := range keys {
			_, err := tm.Increment(k, 7, 1)
			must(err)
		}
		clock.SimAdvance(2 * time.Second)
		want := map[string]int{}
		return target{name: kind, draw: func(rt *rapid.T) op {
			k := rapid.SampledFrom(keys).Draw(rt, "key")
			switch rapid.IntRange(0, 3).Draw(rt, "map-op") {
			case 0:
				return func() { _, _ = tm.Get(k) }
			case 1:
				return func() { _, _, _ = tm.GetInt(k); _ = tm.Len() }
			default:
				want[k]++
				return func() { _, _ = tm.Increment(k, 1, 3600) }
			}
		}, audit: func() string {
			for _, k := range keys {
				if want[k] == 0 {
					continue
				}
				got, ok, err := tm.GetInt(k)
				if err != nil || !ok || got != want[k] {
					return fmt.Sprintf("key %s was incremented %d times (starting from an expired entry), the map reports %d (present=%v, err=%v)", k, want[k], got, ok, err)
				}
			}
			return ""
		}}
	case "rtmetrics-count":
		// "no counter update is lost": every Record must be counted whatever the interleaving (the clock stands still,
		// nothing ages out). A lost update needs no data race: a check-then-act split across two critical sections loses one too.
		m, err := memmetrics.NewRTMetrics()
		must(err)
		want := map[int]int64{}
		var total, netErr int64
		return target{name: kind, draw: func(rt *rapid.T) op {
			if rapid.IntRange(0, 4).Draw(rt, "count-read") == 0 {
				return func() { _ = m.StatusCodesCounts(); _ = m.ResponseCodeRatio(500, 600, 0, 600) }
			}
			code := rapid.SampledFrom([]int{200, 200, 500, 502, 504, 404}).Draw(rt, "rec-code")
			want[code]++
			total++
			if code == 502 || code == 504 {
				netErr++
			}
			return func() { m.Record(code, 5*time.Millisecond) }
		}, audit: func() string {
			got := m.StatusCodesCounts()
			for c, n := range want {
				if got[c] != n {
					return fmt.Sprintf("status %d was recorded %d times, StatusCodesCounts reports %d (all: %v)", c, n, got[c], got)
				}
			}
			if t := m.TotalCount(); t != total {
				return fmt.Sprintf("%d responses recorded, TotalCount reports %d", total, t)
			}
			if e := m.NetworkErrorCount(); e != netErr {
				return fmt.Sprintf("%d network errors recorded, NetworkErrorCount reports %d", netErr, e)
			}
			return ""
		}}
	case "trace":
		tr, err := trace.New(bottom, &lockedWriter{failEvery: rapid.IntRange(0, 3).Draw(rt, "sink-refuses-every")}, trace.RequestHeaders("Src"), trace.ResponseHeaders("X-None"))
		must(err)
		return target{name: kind, h: tr, draw: func(rt *rapid.T) op { return serve(tr, drawSrc(rt), drawCode(rt)) }}
	default: // a stack of everything
		rr := newRR(bottom)
		rb, err := roundrobin.NewRebalancer(rr, roundrobin.RebalancerBackoff(time.Millisecond))
		must(err)
		must(rb.UpsertServer(mustURL("http://a")))
		must(rb.UpsertServer(mustURL("http://b")))
		var h http.Handler = rb
		layers := rapid.Permutation([]string{"cbreaker", "ratelimit", "connlimit", "trace", "buffer", "stream"}).Draw(rt, "layers")
		n := rapid.IntRange(2, len(layers)).Draw(rt, "depth")
		for _, l := range layers[:n] {
			switch l {
			case "cbreaker":
				cb, err := cbreaker.New(h, "NetworkErrorRatio() > 0.3", cbreaker.FallbackDuration(2*time.Millisecond), cbreaker.RecoveryDuration(3*time.Millisecond), cbreaker.CheckPeriod(time.Millisecond))
				must(err)
				h = cb
			case "ratelimit":
				tl, err := ratelimit.New(h, extract, rates())
				must(err)
				h = tl
			case "connlimit":
				cl, err := connlimit.New(h, extract, 2)
				must(err)
				h = cl
			case "trace":
				tr, err := trace.New(h, &lockedWriter{failEvery: rapid.IntRange(0, 3).Draw(rt, "sink-refuses-every")})
				must(err)
				h = tr
			case "buffer":
				b, err := buffer.New(h, buffer.Retry("IsNetworkError() && Attempts() < 2"))
				must(err)
				h = b
			case "stream":
				s, err := stream.New(h)
				must(err)
				h = s
			}
		}
		top := h
		return target{name: "stack(" + strings.Join(layers[:n], ">") + ")", h: top, breaks: true, draw: func(rt *rapid.T) op {
			if rapid.IntRange(0, 3).Draw(rt, "stack-admin") == 0 {
				return balancerOps(rt, top, rr, rb)
			}
			return serve(top, drawSrc(rt), drawCode(rt))
		}}
	}
}

var (
	raceLogOffset int64
	frameRE       = regexp.MustCompile(`(?m)^  (github\.com/vulcand/oxy/v2/[^\s(]+(?:\([^)]*\))?[^\s(]*)\(`)
)

func raceLogPath() string {
	for _, f := range strings.Fields(os.Getenv("GORACE")) {
		if strings.HasPrefix(f, "log_path=") {
			return fmt.Sprintf("%s.%d", strings.TrimPrefix(f, "log_path="), os.Getpid())
		}
	}
	return ""
}

// newReports returns the race reports written since the last call and the
// identity of the first one: the sorted pair of innermost oxy frames.
func newReports() (string, string) {
	p := raceLogPath()
	if p == "" {
		return "", "unknown"
	}
	data, err := os.ReadFile(p)
	if err != nil || int64(len(data)) <= raceLogOffset {
		return "", "unknown"
	}
	txt := string(data[raceLogOffset:])
	raceLogOffset = int64(len(data))
	var ids []string
	for _, rep := range strings.Split(txt, "WARNING: DATA RACE")[1:] {
		// the two access stacks are the first two blocks; take the first oxy (non-harness) frame of each
		var pair []string
		for _, block := range strings.Split(rep, "\n\n") {
			if !(strings.Contains(block, " by goroutine ") && (strings.HasPrefix(strings.TrimSpace(block), "Write") || strings.HasPrefix(strings.TrimSpace(block), "Read") || strings.HasPrefix(strings.TrimSpace(block), "Previous"))) {
				continue
			}
			fn := "(outside-oxy)"
			for i, m := range frameRE.FindAllStringSubmatch(block, -1) {
				if i == 0 && strings.Contains(m[1], "/zzverif/") {
					// the access itself is made by harness code: whatever called it, the memory is the harness's
					break
				}
				if !strings.Contains(m[1], "/zzverif/") {
					fn = strings.TrimPrefix(m[1], "github.com/vulcand/oxy/v2/")
					break
				}
			}
			pair = append(pair, fn)
			if len(pair) == 2 {
				break
			}
		}
		sort.Strings(pair)
		ids = append(ids, strings.Join(pair, "<->"))
	}
	sort.Strings(ids)
	if len(ids) == 0 {
		return txt, "unknown"
	}
	return txt, ids[0]
}

func TestC09(t *testing.T) {
	if !simrt.RaceEnabled {
		fmt.Fprintln(os.Stderr, "VERIF-HARNESS: racesim must be built with -race")
		os.Exit(2)
	}
	simkit.Main(t, "C09", components, c09prop)
}

func c09prop(r *simkit.Run) {
	rt := r.T
	clock.SimFreeze(time.Unix(1_700_000_000, 0).UTC())
	defer clock.SimUnfreeze()
	tg := buildTarget(rt)
	sim := simrt.New(r.Chooser())
	defer sim.Shutdown()
	sim.Fine = true
	K := rapid.IntRange(2, 6).Draw(rt, "tasks")
	for k := 0; k < K; k++ {
		n := rapid.IntRange(1, 5).Draw(rt, "ops")
		ops := make([]op, n)
		for i := range ops {
			ops[i] = tg.draw(rt)
		}
		sim.Spawn(fmt.Sprintf("t%d", k), func() {
			for _, o := range ops {
				o()
			}
		})
	}
	before := simrt.RaceErrors()
	for steps := 0; ; steps++ {
		if tg.breaks && rapid.IntRange(0, 15).Draw(rt, "tick") == 0 {
			clock.SimAdvance(time.Duration(rapid.SampledFrom([]int{1, 2, 5, 1000, 11000}).Draw(rt, "tick-ms")) * time.Millisecond)
		}
		if !sim.StepChosen() {
			break
		}
		if sim.Steps > 100000 {
			r.Fail("no-termination", "more than 100000 scheduler steps")
		}
	}
	if sim.Deadlocked() {
		r.Fail("deadlock", "no task can run but %d wait for a lock (%s)", len(sim.Blocked()), tg.name)
	}
	if tg.audit != nil {
		at := sim.Spawn("audit", func() { sim.Current().SetResult(tg.audit()) })
		sim.RunTask(at)
		if msg, _ := at.Result().(string); msg != "" {
			r.Fail("lost-update", "%s: %s", tg.name, msg)
		}
	}
	for _, tk := range sim.Tasks() {
		if tk.Panic != nil {
			r.Fail("panic", "task %s panicked in %s: %v\n%s", tk.Name, tg.name, tk.Panic, tk.PanicSite)
		}
	}
	if n := simrt.RaceErrors() - before; n > 0 {
		txt, id := newReports()
		if strings.Contains(id, "(outside-oxy)<->(outside-oxy)") {
			fmt.Fprintf(os.Stderr, "VERIF-HARNESS: race report without any oxy frame (harness memory?):\n%s\n", txt)
			os.Exit(2)
		}
		if len(txt) > 6000 {
			txt = txt[:6000]
		}
		r.Tracef("race detector output:\n%s", txt)
		r.Fail("data-race["+id+"]", "%d unsynchronised conflicting accesses reported in this run against %s (lock order as scheduled); first pair: %s", n, tg.name, id)
	}
	r.FromSim(sim)
	if sim.Switches >= 2 {
		r.Nontrivial()
	}
	r.Probe("target-" + strings.SplitN(tg.name, "(", 2)[0])
	r.Sample(func() any {
		return map[string]any{"target": tg.name, "tasks": K, "steps": sim.Steps, "switches": sim.Switches}
	})
}
