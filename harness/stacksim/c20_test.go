package stacksim

import (
	"bytes"
	"context"
	"fmt"
	"io"
	"net/http"
	"net/url"
	"reflect"
	"sort"
	"strings"
	"sync"
	"testing"
	"time"

	"github.com/vulcand/oxy/v2/buffer"
	"github.com/vulcand/oxy/v2/cbreaker"
	"github.com/vulcand/oxy/v2/connlimit"
	"github.com/vulcand/oxy/v2/internal/holsterv4/clock"
	"github.com/vulcand/oxy/v2/ratelimit"
	"github.com/vulcand/oxy/v2/roundrobin"
	"github.com/vulcand/oxy/v2/stream"
	"github.com/vulcand/oxy/v2/trace"
	"github.com/vulcand/oxy/v2/utils"
	"github.com/vulcand/oxy/v2/zzverif/simkit"
	"github.com/vulcand/oxy/v2/zzverif/simrt"
	"pgregory.net/rapid"
)

var components = map[string][]string{
	"real": {"stream", "trace", "connlimit", "ratelimit", "cbreaker", "roundrobin.RoundRobin", "roundrobin.Rebalancer", "buffer", "utils.ProxyWriter and error handlers"},
	"simulated": {"goroutine scheduling (simrt: filler requests are parked inside the innermost handler to fill the connection limiter)", "clock (frozen clock advanced by the coordinator)",
		"innermost handler (scripted: status explicit or implicit, multi-valued headers, body chunks, Flush between chunks, Hijack)", "client response writer (strict recorder implementing Flusher, Hijacker, CloseNotifier)"},
}

type ctxKey struct{}

// script of the innermost handler for one request
type script struct {
	park    bool // filler: park inside the handler until released
	status  int  // 0 = implicit
	headers [][2]string
	chunks  []int // body chunk sizes
	flush   []bool
	hijack  bool
	early   bool // send "103 Early Hints" before the final status
	abort   bool // after its writes the handler aborts (panic(http.ErrAbortHandler)), as a reverse proxy does when its backend or client breaks off
	// what the handler observed
	invoked    int
	gotFlusher bool
	gotHijack  bool
	gotCloseN  bool
	sawBody    []byte
	sawURLHost string
}

type layer struct {
	kind string
	rr   *roundrobin.RoundRobin
	rb   *roundrobin.Rebalancer
	cb   *cbreaker.CircuitBreaker
}

type lockedBuf struct {
	mu   sync.Mutex
	b    bytes.Buffer
	fail bool // the sink is broken (closed pipe, full disk): every write fails
	hits *int
}

func (l *lockedBuf) Write(p []byte) (int, error) {
	l.mu.Lock()
	defer l.mu.Unlock()
	if l.fail {
		if l.hits != nil {
			*l.hits++
		}
		return 0, io.ErrClosedPipe
	}
	return l.b.Write(p)
}

func runScript(sim *simrt.Sim, w http.ResponseWriter, req *http.Request) {
	sc := req.Context().Value(ctxKey{}).(*script)
	sc.invoked++
	sc.sawURLHost = req.URL.Host
	if req.Body != nil {
		sc.sawBody, _ = io.ReadAll(req.Body)
	}
	if sc.park && sim != nil {
		sim.Park("handler")
	}
	if sc.hijack {
		hj, ok := w.(http.Hijacker)
		sc.gotHijack = ok
		if ok {
			conn, rw, err := hj.Hijack()
			if err == nil {
				_, _ = rw.WriteString("HTTP/1.1 101 Switching\r\n\r\nraw-bytes")
				_ = rw.Flush()
				_ = conn.Close()
				return
			}
			sc.gotHijack = false
		}
		// the connection cannot be taken over: answer like an upgrader does, with an ordinary response
		w.Header().Set("X-Upgrade", "refused")
	}
	for _, h := range sc.headers {
		w.Header().Add(h[0], h[1])
	}
	if sc.early {
		w.WriteHeader(http.StatusEarlyHints)
	}
	if sc.status != 0 {
		w.WriteHeader(sc.status)
	}
	_, sc.gotFlusher = w.(http.Flusher)
	_, sc.gotCloseN = w.(http.CloseNotifier) //nolint:staticcheck // the property is about what stays reachable
	for i, n := range sc.chunks {
		_, _ = w.Write(bytes.Repeat([]byte{byte('a' + i%26)}, n))
		if sc.flush[i] {
			if f, ok := w.(http.Flusher); ok {
				f.Flush()
			}
		}
	}
	if sc.abort {
		panic(http.ErrAbortHandler)
	}
}

func TestC20(t *testing.T) {
	simkit.Main(t, "C20", components, c20prop)
}

func mustURL(s string) *url.URL {
	u, err := url.Parse(s)
	if err != nil {
		panic(err)
	}
	return u
}

func c20prop(r *simkit.Run) {
	rt := r.T
	clock.Freeze(time.Unix(1_700_000_000, 0).UTC())
	defer clock.Unfreeze()
	sim := simrt.New(r.Chooser())
	defer sim.Shutdown()
	innermost := http.HandlerFunc(func(w http.ResponseWriter, req *http.Request) { runScript(sim, w, req) })

	kinds := []string{"stream", "trace", "connlimit", "ratelimit", "cbreaker", "roundrobin", "rebalancer", "buffer"}
	depth := rapid.IntRange(1, 6).Draw(rt, "depth")
	var names []string
	for i := 0; i < depth; i++ {
		names = append(names, rapid.SampledFrom(kinds).Draw(rt, "layer"))
	}
	// which layer (index from the innermost outwards) is driven into intervening; -1 = none
	intervene := -1
	if rapid.Bool().Draw(rt, "intervening-run") {
		var cand []int
		for i, k := range names {
			if k != "stream" && k != "trace" {
				cand = append(cand, i)
			}
		}
		if len(cand) > 0 {
			intervene = cand[rapid.IntRange(0, len(cand)-1).Draw(rt, "which-layer")]
		}
	}
	extract, _ := utils.NewExtractor("request.header." + rapid.SampledFrom([]string{"Src", "Src", "src", "SRC", "sRC"}).Draw(rt, "source-header-spelling"))
	must := func(err error) {
		if err != nil {
			rt.Fatalf("building %v: %v", names, err)
		}
	}
	// Other users of the same packages in the process: by draw, before or after the stack under test is built,
	// another application builds a middleware of every kind for itself, each configured away from the defaults
	// (its own error handlers and fallback, which answer 418 and sign it), and sends a request through them.
	neighbours := func() {
		teapot := utils.ErrorHandlerFunc(func(w http.ResponseWriter, _ *http.Request, _ error) {
			w.Header().Set("X-Neighbour", "1")
			w.WriteHeader(http.StatusTeapot)
		})
		var nh http.Handler = http.HandlerFunc(func(w http.ResponseWriter, _ *http.Request) { w.WriteHeader(http.StatusNoContent) })
		wrap := func(x http.Handler, err error) {
			must(err)
			nh = x
		}
		b, err := buffer.New(nh, buffer.ErrorHandler(teapot), buffer.MaxRequestBodyBytes(1), buffer.MemRequestBodyBytes(1), buffer.Retry("IsNetworkError() && Attempts() < 2"))
		wrap(b, err)
		nrs := ratelimit.NewRateSet()
		must(nrs.Add(time.Minute, 7, 7))
		tl, err := ratelimit.New(nh, extract, nrs, ratelimit.ErrorHandler(teapot), ratelimit.Capacity(3))
		wrap(tl, err)
		cl, err := connlimit.New(nh, extract, 7, connlimit.ErrorHandler(teapot))
		wrap(cl, err)
		cb, err := cbreaker.New(nh, "ResponseCodeRatio(500, 600, 0, 600) > 0.9", cbreaker.Fallback(http.HandlerFunc(func(w http.ResponseWriter, req *http.Request) { teapot(w, req, nil) })), cbreaker.FallbackDuration(time.Hour))
		wrap(cb, err)
		nrr, err := roundrobin.New(nh, roundrobin.ErrorHandler(teapot))
		must(err)
		nrb, err := roundrobin.NewRebalancer(nrr, roundrobin.RebalancerErrorHandler(teapot))
		must(err)
		must(nrb.UpsertServer(mustURL("http://neighbour-a"), roundrobin.Weight(3)))
		nh = nrb
		tr, err := trace.New(nh, io.Discard, trace.ErrorHandler(teapot))
		wrap(tr, err)
		st, err := stream.New(nh)
		wrap(st, err)
		for _, body := range []string{"", "xx"} { // the second is over its buffer's limit
			nreq := &http.Request{Method: "POST", URL: &url.URL{Scheme: "http", Host: "neighbour", Path: "/"}, Proto: "HTTP/1.1", ProtoMajor: 1, ProtoMinor: 1,
				Header: http.Header{"Src": []string{"n"}}, Host: "neighbour", RemoteAddr: "10.0.0.9:1", Body: io.NopCloser(strings.NewReader(body)), ContentLength: int64(len(body)), RequestURI: "/"}
			nh.ServeHTTP(simkit.NewRecorder(), nreq)
		}
	}
	withNeighbours := rapid.SampledFrom([]int{0, 0, 1, 2}).Draw(rt, "neighbours-in-the-process")
	if withNeighbours == 1 {
		neighbours()
	}
	var h http.Handler = innermost
	sinkFaults := 0
	layers := make([]*layer, depth)
	bufferAbove := false
	stickyNames := map[string]bool{} // affinity cookies of sticky balancers in the stack: their documented addition
	for i, k := range names {
		l := &layer{kind: k}
		layers[i] = l
		iv := i == intervene
		switch k {
		case "stream":
			var stOpts []stream.Option
			if rapid.IntRange(0, 2).Draw(rt, "logger") == 0 {
				stOpts = append(stOpts, stream.Logger(simkit.SlowLogger{}), stream.Verbose(rapid.Bool().Draw(rt, "verbose")))
			}
			s, err := stream.New(h, stOpts...)
			must(err)
			h = s
		case "trace":
			// the trace output is the caller's writer; a broken one is a fault the tracer must absorb silently
			t, err := trace.New(h, &lockedBuf{fail: rapid.IntRange(0, 3).Draw(rt, "trace-sink-broken") == 0, hits: &sinkFaults}, trace.RequestHeaders("Src"), trace.ResponseHeaders("X-Multi"))
			must(err)
			h = t
		case "connlimit":
			// not reached by sequential traffic whatever it is: one request at a time is inside
			lim := int64(rapid.SampledFrom([]int{1, 2, 100}).Draw(rt, "idle-conn-limit"))
			if iv {
				lim = int64(rapid.IntRange(1, 3).Draw(rt, "conn-limit"))
			}
			var clOpts []connlimit.Option
			if rapid.IntRange(0, 2).Draw(rt, "logger") == 0 {
				clOpts = append(clOpts, connlimit.Logger(simkit.SlowLogger{}), connlimit.Verbose(rapid.Bool().Draw(rt, "verbose")))
			}
			c, err := connlimit.New(h, extract, lim, clOpts...)
			must(err)
			h = c
		case "ratelimit":
			rs := ratelimit.NewRateSet()
			if iv {
				must(rs.Add(time.Hour, 1, int64(rapid.IntRange(1, 3).Draw(rt, "burst"))))
			} else {
				// a generous quota the run cannot come near, stated over whatever period the caller likes - the limiter has
				// no reason to intervene, whether the period is a millisecond or a day, alone or next to a second rate
				periods := []time.Duration{time.Millisecond, 50 * time.Millisecond, 99 * time.Millisecond, 100 * time.Millisecond, 250 * time.Millisecond, time.Second, 1500 * time.Millisecond, time.Minute, time.Hour, 24 * time.Hour}
				p1 := rapid.IntRange(0, len(periods)-1).Draw(rt, "quota-period")
				must(rs.Add(periods[p1], 1000, int64(rapid.SampledFrom([]int{1000, 1000, 5000, 1_000_000}).Draw(rt, "quota-burst"))))
				if rapid.IntRange(0, 2).Draw(rt, "second-quota") == 0 {
					p2 := rapid.IntRange(0, len(periods)-1).Draw(rt, "quota-period-2")
					if p2 != p1 {
						must(rs.Add(periods[p2], 100_000, 100_000))
					}
				}
			}
			var tlOpts []ratelimit.TokenLimiterOption
			if rapid.IntRange(0, 2).Draw(rt, "logger") == 0 {
				tlOpts = append(tlOpts, ratelimit.Logger(simkit.SlowLogger{}))
			}
			tl, err := ratelimit.New(h, extract, rs, tlOpts...)
			must(err)
			h = tl
		case "cbreaker":
			cond := "NetworkErrorRatio() > 2.0" // can never hold
			if iv {
				cond = "NetworkErrorRatio() > 0.5"
			}
			cbOpts := []cbreaker.Option{cbreaker.CheckPeriod(time.Millisecond), cbreaker.FallbackDuration(time.Minute), cbreaker.RecoveryDuration(time.Minute)}
			if rapid.IntRange(0, 2).Draw(rt, "logger") == 0 {
				cbOpts = append(cbOpts, cbreaker.Logger(simkit.SlowLogger{}), cbreaker.Verbose(rapid.Bool().Draw(rt, "verbose")))
			}
			cb, err := cbreaker.New(h, cond, cbOpts...)
			must(err)
			l.cb = cb
			h = cb
		case "roundrobin":
			var lbOpts []roundrobin.LBOption
			if rapid.IntRange(0, 2).Draw(rt, "sticky") == 0 {
				name := fmt.Sprintf("aff%d", i)
				lbOpts = append(lbOpts, roundrobin.EnableStickySession(roundrobin.NewStickySession(name)))
				stickyNames[name] = true
			}
			rr, err := roundrobin.New(h, lbOpts...)
			must(err)
			must(rr.UpsertServer(mustURL(fmt.Sprintf("http://srv%d-a", i))))
			must(rr.UpsertServer(mustURL(fmt.Sprintf("http://srv%d-b", i)), roundrobin.Weight(2)))
			l.rr = rr
			h = rr
		case "rebalancer":
			rr, err := roundrobin.New(h)
			must(err)
			var rbOpts []roundrobin.RebalancerOption
			if rapid.IntRange(0, 2).Draw(rt, "sticky") == 0 {
				name := fmt.Sprintf("aff%d", i)
				rbOpts = append(rbOpts, roundrobin.RebalancerStickySession(roundrobin.NewStickySession(name)))
				stickyNames[name] = true
			}
			rb, err := roundrobin.NewRebalancer(rr, rbOpts...)
			must(err)
			must(rb.UpsertServer(mustURL(fmt.Sprintf("http://srv%d-a", i))))
			must(rb.UpsertServer(mustURL(fmt.Sprintf("http://srv%d-b", i))))
			l.rr, l.rb = rr, rb
			h = rb
		case "buffer":
			opts := []buffer.Option{buffer.MemRequestBodyBytes(8), buffer.MemResponseBodyBytes(8)}
			// by draw a retry predicate that never holds: the buffer has no reason to replay anything (none of them
			// reads the code of a response that chose no status: whether that is 200 or "none" is left open, see bufsim)
			if p := rapid.SampledFrom([]string{"", "", "Attempts() > 1 && Attempts() < 3", "ResponseCode() >= 600 && Attempts() < 3", "IsNetworkError() && ResponseCode() == 200 && Attempts() < 3"}).Draw(rt, "retry-that-never-holds"); p != "" {
				opts = append(opts, buffer.Retry(p))
			}
			if rapid.IntRange(0, 2).Draw(rt, "logger") == 0 {
				opts = append(opts, buffer.Logger(simkit.SlowLogger{}), buffer.Verbose(rapid.Bool().Draw(rt, "verbose")))
			}
			if iv {
				opts = append(opts, buffer.MaxRequestBodyBytes(16))
			}
			b, err := buffer.New(h, opts...)
			must(err)
			h = b
			bufferAbove = true
		}
	}
	top := h
	if withNeighbours == 2 {
		neighbours()
	}
	if withNeighbours != 0 {
		r.Probe("neighbour-middlewares-in-the-process")
	}

	writerKind := rapid.SampledFrom([]string{"hijackable", "hijackable", "hijack-refused", "plain"}).Draw(rt, "client-writer")
	clientWriter := func(rec *simkit.Recorder) http.ResponseWriter {
		switch writerKind {
		case "hijack-refused":
			rec.RefuseHijack = true
		case "plain":
			return simkit.Plain{R: rec}
		}
		return rec
	}
	send := func(sc *script, src string, body []byte, method string) (*simkit.Recorder, *simrt.Task, *any) {
		rec := simkit.NewRecorder()
		req := &http.Request{Method: method, URL: &url.URL{Scheme: "http", Host: "client", Path: "/x"}, Proto: "HTTP/1.1", ProtoMajor: 1, ProtoMinor: 1,
			Header: http.Header{"Src": []string{src}}, Host: "client", RemoteAddr: "10.0.0.1:1", Body: io.NopCloser(bytes.NewReader(body)), ContentLength: int64(len(body)), RequestURI: "/x"}
		req = req.WithContext(context.WithValue(context.Background(), ctxKey{}, sc))
		var pv any
		t := sim.Spawn("req", func() {
			defer func() {
				if p := recover(); p != nil {
					pv = p
					panic(p)
				}
			}()
			top.ServeHTTP(clientWriter(rec), req)
		})
		sim.RunTask(t)
		return rec, t, &pv
	}
	failIf := func(t *simrt.Task, what string) {
		if t.Panic != nil {
			r.Fail("panic", "%s: %v in stack %v\n%s", what, t.Panic, names, t.PanicSite)
		}
	}

	// ---- the probe's script ----
	probe := &script{}
	if rapid.IntRange(0, 5).Draw(rt, "hijack") == 0 {
		probe.hijack = true
	} else {
		probe.status = rapid.SampledFrom([]int{0, 0, 200, 201, 202, 301, 404, 409, 500, 502, 503}).Draw(rt, "status")
		probe.early = rapid.IntRange(0, 3).Draw(rt, "early-hints") == 0
		if rapid.Bool().Draw(rt, "h-multi") {
			probe.headers = append(probe.headers, [2]string{"X-Multi", "one"}, [2]string{"X-Multi", "two"})
		}
		if rapid.Bool().Draw(rt, "h-ct") {
			probe.headers = append(probe.headers, [2]string{"Content-Type", "text/x-sim"})
		}
		if rapid.Bool().Draw(rt, "h-cookie") {
			probe.headers = append(probe.headers, [2]string{"Set-Cookie", "k=v"}, [2]string{"Set-Cookie", "k2=v2"})
		}
		for i, n := 0, rapid.IntRange(0, 4).Draw(rt, "chunks"); i < n; i++ {
			probe.chunks = append(probe.chunks, rapid.SampledFrom([]int{0, 1, 5, 9, 100, 5000}).Draw(rt, "chunk"))
			probe.flush = append(probe.flush, rapid.Bool().Draw(rt, "flush"))
		}
	}
	reqBody := bytes.Repeat([]byte("q"), rapid.SampledFrom([]int{0, 3, 12}).Draw(rt, "req-body"))
	method := rapid.SampledFrom([]string{"GET", "POST"}).Draw(rt, "method")
	bystanderNote := ""
	ctxt := func() string {
		return fmt.Sprintf("[stack outermost..innermost %v, intervening layer %d, probe %+v]", reverse(names), intervene, *probe) + bystanderNote
	}

	// ---- drive the chosen layer into its intervening state ----
	var fillers []*simrt.Task
	wantStatus, wantRetry := 0, false
	if intervene >= 0 {
		switch names[intervene] {
		case "connlimit":
			for {
				sc := &script{park: true, status: 200}
				_, t, _ := send(sc, "probe-src", nil, "GET")
				failIf(t, "filler")
				if _, parked := t.Parked(); !parked {
					break // limit reached: this one was refused
				}
				fillers = append(fillers, t)
				if len(fillers) > 5 {
					r.Fail("limit-not-enforced", "six requests of one source are inside the handler at once although the connection limit is at most 3 %s", ctxt())
				}
			}
			wantStatus = http.StatusTooManyRequests
		case "ratelimit":
			for i := 0; i < 6; i++ {
				sc := &script{status: 200}
				rec, t, _ := send(sc, "probe-src", nil, "GET")
				failIf(t, "warm-up")
				if rec.Status == http.StatusTooManyRequests {
					break
				}
			}
			wantStatus, wantRetry = http.StatusTooManyRequests, true
		case "cbreaker":
			cb := layers[intervene].cb
			for i := 0; i < 8 && !strings.Contains(cb.String(), "tripped"); i++ {
				sc := &script{status: 502}
				_, t, _ := send(sc, "warm-src", nil, "GET")
				failIf(t, "warm-up")
				clock.Advance(2 * time.Millisecond)
			}
			if !strings.Contains(cb.String(), "tripped") {
				// a layer above may hide the 502s from nobody: the breaker sees its own next handler, so this cannot happen
				r.Fail("harness", "breaker did not trip after eight 502 responses %s", ctxt())
			}
			wantStatus = http.StatusServiceUnavailable
		case "roundrobin", "rebalancer":
			l := layers[intervene]
			for _, u := range l.rr.Servers() {
				if l.rb != nil {
					must(l.rb.RemoveServer(u))
				} else {
					must(l.rr.RemoveServer(u))
				}
			}
			wantStatus = http.StatusInternalServerError
		case "buffer":
			reqBody = bytes.Repeat([]byte("q"), 100)
			method = "POST"
			wantStatus = http.StatusRequestEntityTooLarge
		}
	}

	// ---- the bare handler's own response ----
	bareScript := *probe
	bare := simkit.NewRecorder()
	{
		req := (&http.Request{Method: method, URL: &url.URL{Path: "/x"}, Header: http.Header{}, Body: io.NopCloser(bytes.NewReader(reqBody))}).WithContext(context.WithValue(context.Background(), ctxKey{}, &bareScript))
		runScript(nil, clientWriter(bare), req)
	}

	sim.NoteStr("stack", strings.Join(names, ","))
	sim.Note("intervene", int64(intervene), int64(probe.status), int64(len(reqBody)))
	sim.NoteStr("probe", fmt.Sprint(probe.headers, probe.chunks, probe.flush, probe.hijack, probe.early, method, writerKind))
	// earlier requests of the same client whose handler aborted (the abort propagates, as it must) leave nothing
	// behind that gives a layer a reason to intervene later
	if intervene < 0 {
		for k, n := 0, rapid.IntRange(0, 3).Draw(rt, "earlier-aborted-requests"); k < n; k++ {
			sc := &script{status: 200, chunks: []int{3}, flush: []bool{false}, abort: true}
			rec, t, _ := send(sc, "probe-src", nil, "GET")
			if sc.invoked != 1 {
				r.Fail("invocation-count", "no layer has a reason to intervene, yet request %d of this client (its handler was going to abort) reached the handler %d times, client status %d %s", k+1, sc.invoked, rec.Status, ctxt())
			}
			if t.Panic == nil || fmt.Sprint(t.Panic) != fmt.Sprint(http.ErrAbortHandler) {
				r.Fail("abort-swallowed", "the handler aborted with http.ErrAbortHandler; the stack ended the request with %v %s", t.Panic, ctxt())
			}
			r.Probe("earlier-request-aborted")
		}
	}
	// a limiter that has a reason to refuse one source has none to touch another: by draw the probe comes from a
	// bystander and must pass through the whole stack untouched, with the first source still at its limit
	probeSrc, bystander := "probe-src", false
	if intervene >= 0 && (names[intervene] == "connlimit" || names[intervene] == "ratelimit") && rapid.IntRange(0, 2).Draw(rt, "bystander-source") == 0 {
		probeSrc, bystander = "other-src", true
		bystanderNote = " [the probe comes from another source than the one driven to its limit]"
	}
	rec, task, _ := send(probe, probeSrc, reqBody, method)
	failIf(task, "probe request")
	if !task.Done() {
		r.Fail("no-return", "the probe request did not return %s", ctxt())
	}
	if bystander {
		r.Probe("bystander-of-a-limited-source")
	}
	if intervene >= 0 && !bystander {
		if probe.invoked != 0 {
			r.Fail("handler-invoked-despite-intervention", "layer %s intervened (expected %d) but the wrapped handler was invoked %d times; client status %d %s", names[intervene], wantStatus, probe.invoked, rec.Status, ctxt())
		}
		if rec.WriteHeaders != 1 || rec.Status != wantStatus {
			r.Fail("intervention-response", "layer %s intervening: client saw %d WriteHeader calls, status %d; documented status %d %s", names[intervene], rec.WriteHeaders, rec.Status, wantStatus, ctxt())
		}
		if rec.Body.Len() == 0 {
			r.Fail("intervention-response", "layer %s intervening: response has no body %s", names[intervene], ctxt())
		}
		if wantRetry && rec.Snapshot.Get("X-Retry-In") == "" {
			r.Fail("intervention-response", "rate limiter intervening: no X-Retry-In header (%v) %s", rec.Snapshot, ctxt())
		}
	} else {
		if probe.invoked != 1 {
			r.Fail("invocation-count", "no layer has a reason to intervene, the wrapped handler was invoked %d times (client status %d) %s", probe.invoked, rec.Status, ctxt())
		}
		if !bytes.Equal(probe.sawBody, reqBody) {
			r.Fail("request-body", "the handler read %q, the client sent %q %s", probe.sawBody, reqBody, ctxt())
		}
		if probe.hijack && writerKind == "hijackable" {
			if !probe.gotHijack || !rec.Hijacked || rec.HijackBuf.String() != bare.HijackBuf.String() {
				r.Fail("hijack", "connection hijacking not available to the handler or not reaching the client (handler got hijacker=%v, client hijacked=%v, bytes %q) %s", probe.gotHijack, rec.Hijacked, rec.HijackBuf.String(), ctxt())
			}
		} else {
			if eff(rec.Status) != eff(bare.Status) || rec.WriteHeaders > 1 {
				r.Fail("status", "client saw status %d (%d WriteHeader calls), the handler alone produces %d %s", rec.Status, rec.WriteHeaders, bare.Status, ctxt())
			}
			if !bytes.Equal(rec.Body.Bytes(), bare.Body.Bytes()) {
				r.Fail("body", "client got %d body bytes, the handler alone produces %d %s", rec.Body.Len(), bare.Body.Len(), ctxt())
			}
			seen, missing := clientHeaders(rec), ""
			if len(stickyNames) > 0 {
				seen, missing = withoutAffinity(seen, stickyNames)
			}
			if missing != "" {
				r.Fail("affinity-cookie-lost", "the sticky balancer's cookie %s is not among the Set-Cookie headers the client saw exactly once: %v (the handler alone sets %v) %s", missing, clientHeaders(rec)["Set-Cookie"], clientHeaders(bare)["Set-Cookie"], ctxt())
			}
			if !reflect.DeepEqual(seen, clientHeaders(bare)) {
				r.Fail("headers", "client saw headers %v, the handler alone produces %v %s", rec.Snapshot, bare.Snapshot, ctxt())
			}
			if !bufferAbove && !reflect.DeepEqual(rec.Informational, bare.Informational) {
				r.Fail("informational", "informational responses at the client %v, the handler alone produces %v %s", rec.Informational, bare.Informational, ctxt())
			}
			if bareScript.gotCloseN && !probe.gotCloseN {
				r.Fail("close-notifier", "the client writer offers CloseNotifier, the handler behind the stack does not see it %s", ctxt())
			}
			if !bufferAbove {
				if !probe.gotFlusher {
					r.Fail("flush", "http.Flusher not available to the handler %s", ctxt())
				}
				if !reflect.DeepEqual(rec.Flushes, bare.Flushes) {
					r.Fail("flush", "flush points at the client %v, the handler alone produces %v %s", rec.Flushes, bare.Flushes, ctxt())
				}
			}
		}
	}
	// release fillers and let them finish
	for _, f := range fillers {
		sim.Unpark(f, nil)
		sim.RunTask(f)
		failIf(f, "filler")
	}
	sim.Quiesce()
	r.FromSim(sim)
	if depth >= 2 {
		r.Nontrivial()
	}
	if intervene >= 0 {
		r.Probe("intervening-" + names[intervene])
	} else {
		r.Probe("non-intervening")
	}
	if probe.hijack {
		r.Probe("hijack")
	}
	if bufferAbove {
		r.Probe("buffer-in-stack")
	}
	if len(stickyNames) > 0 {
		r.Probe("sticky-balancer-in-stack")
	}
	for i := 0; i < sinkFaults; i++ {
		r.Fault("trace-sink-write-error")
	}
	r.Sample(func() any {
		return map[string]any{"stack_outermost_first": reverse(names), "intervening_layer": intervene, "probe_status": probe.status, "hijack": probe.hijack, "client_status": rec.Status, "client_body_bytes": rec.Body.Len(), "flushes": rec.Flushes}
	})
}

func reverse(s []string) []string {
	out := make([]string, len(s))
	for i, x := range s {
		out[len(s)-1-i] = x
	}
	return out
}

// a response that never called WriteHeader is a 200 once the server finishes it
func eff(status int) int {
	if status == 0 {
		return 200
	}
	return status
}

// headers as the client sees them: the snapshot at WriteHeader, or the live map if the response never wrote a header
func clientHeaders(r *simkit.Recorder) map[string][]string {
	h := r.Snapshot
	if r.Status == 0 {
		h = r.H
	}
	out := map[string][]string{}
	for k, v := range h {
		if len(v) > 0 {
			out[k] = v
		}
	}
	return out
}

// withoutAffinity removes the affinity cookies of the stack's sticky balancers (each is expected exactly
// once: the requests carry no cookie) and returns the name of one that is missing or repeated.
func withoutAffinity(h map[string][]string, names map[string]bool) (map[string][]string, string) {
	out := map[string][]string{}
	count := map[string]int{}
	for k, v := range h {
		if k != "Set-Cookie" {
			out[k] = v
			continue
		}
		var rest []string
		for _, c := range v {
			if i := strings.IndexByte(c, '='); i > 0 && names[c[:i]] {
				count[c[:i]]++
				continue
			}
			rest = append(rest, c)
		}
		if len(rest) > 0 {
			out[k] = rest
		}
	}
	var keys []string
	for n := range names {
		keys = append(keys, n)
	}
	sort.Strings(keys)
	for _, n := range keys {
		if count[n] != 1 {
			return out, n
		}
	}
	return out, ""
}

func sameHeaders(a, b *simkit.Recorder) bool {
	return reflect.DeepEqual(clientHeaders(a), clientHeaders(b))
}
