package rrsim

import (
	"context"
	"fmt"
	"github.com/vulcand/oxy/v2/utils"
	"net/http"
	"net/url"
	"sort"
	"strings"
	"testing"
	"time"

	"github.com/vulcand/oxy/v2/roundrobin"
	"github.com/vulcand/oxy/v2/zzverif/simkit"
	"github.com/vulcand/oxy/v2/zzverif/simrt"
	"pgregory.net/rapid"
)

var components = map[string][]string{
	"real": {"roundrobin.RoundRobin", "roundrobin.Rebalancer", "roundrobin.StickySession + stickycookie codecs", "memmetrics (rebalancer meters, anomaly split)", "utils (CopyURL, error handler, ProxyWriter)"},
	"simulated": {"goroutine scheduling (simrt, yields at every mutex operation)", "clock (frozen clock advanced by the coordinator)",
		"downstream handler (scripted: records the URL it was handed, optionally rewrites it in place, answers a scripted status)", "rebalancer Meter (scripted ratings/readiness, in addition to runs with the real default meter)",
		"client (response recorder; sessions keep and corrupt the cookie they were issued)"},
}

type ctxKey struct{}

// the universe of server URLs: several spellings share scheme/host/path and differ
// only in userinfo or query (the balancer's notion of "the same server")
var urlUniverse = []string{
	"http://a", "http://a/", "https://a", "http://a:8080", "http://b/x", "http://b/x/", "http://u:p@a", "http://a?q=1",
	"http://b/x%2Fy", "http://b/x/y", "http://c:81/p%20q?z=1", "http://[::1]:80/", "http://A",
}

func mustURL(s string) *url.URL {
	u, err := url.Parse(s)
	if err != nil {
		panic(err)
	}
	return u
}

func keyOf(u *url.URL) string { return u.Scheme + "|" + u.Host + "|" + u.Path }

type member struct {
	key    string
	str    string // full URL string as first added
	weight int
}

// pool is the reference model: ordered members keyed by (scheme, host, path)
type pool struct{ m []member }

func (p *pool) find(k string) int {
	for i := range p.m {
		if p.m[i].key == k {
			return i
		}
	}
	return -1
}

func (p *pool) upsert(u *url.URL, hasW bool, w int) {
	k := keyOf(u)
	if i := p.find(k); i >= 0 {
		if hasW {
			p.m[i].weight = w
		}
		return
	}
	if !hasW || w == 0 {
		w = 1
	}
	p.m = append(p.m, member{k, u.String(), w})
}

func (p *pool) remove(u *url.URL) bool {
	i := p.find(keyOf(u))
	if i < 0 {
		return false
	}
	p.m = append(p.m[:i:i], p.m[i+1:]...)
	return true
}

func (p *pool) positive() []string {
	var out []string
	for _, m := range p.m {
		if m.weight > 0 {
			out = append(out, m.key)
		}
	}
	return out
}

func (p *pool) encode() string {
	ms := append([]member(nil), p.m...)
	sort.Slice(ms, func(i, j int) bool { return ms[i].key < ms[j].key })
	var b strings.Builder
	for _, m := range ms {
		fmt.Fprintf(&b, "%s=%d;", m.key, m.weight)
	}
	return b.String()
}

func decodePool(s string) map[string]int {
	out := map[string]int{}
	for _, part := range strings.Split(s, ";") {
		if part == "" {
			continue
		}
		i := strings.LastIndex(part, "=")
		var w int
		fmt.Sscanf(part[i+1:], "%d", &w)
		out[part[:i]] = w
	}
	return out
}

func gcd(a, b int) int {
	for b != 0 {
		a, b = b, a%b
	}
	return a
}

// one observed operation
type rrOp struct {
	ownMarks int    // how often the caller's error handler answered this request
	listened int    // how often the request-rewrite listener was told about this request
	kind     string // upsert, remove, next, serve, servers, weight
	key      string
	hasW     bool
	w        int
	call     uint64
	ret      uint64
	err      bool
	outKey   string   // next/serve: selected key
	outKeys  []string // servers
	outW     int
	outOK    bool
	selSeq   uint64 // seq of the critical section that made the selection
	status   int
	invoked  bool // serve: downstream handler ran
	task     *simrt.Task
	done     bool
	sticky   bool
	u        *url.URL
}

func (op *rrOp) url() *url.URL { return op.u }

type neverReady struct{}

func (neverReady) Rating() float64           { return 0 }
func (neverReady) Record(int, time.Duration) {}
func (neverReady) IsReady() bool             { return false }

// rrWorld is one balancer (optionally under a rebalancer that never adjusts)
type rrWorld struct {
	logLeft         int
	logPanicTask    *simrt.Task
	faultyLogger    bool
	r               *simkit.Run
	sim             *simrt.Sim
	rr              *roundrobin.RoundRobin
	rb              *roundrobin.Rebalancer
	viaRB           bool
	sticky          bool
	ownErrHandler   bool
	neighbour       *roundrobin.RoundRobin // a second instance from the same constructor, used independently
	neighbourOps    int
	callerReusesURL bool // URL values passed to UpsertServer are written to by the caller afterwards
	listener        bool
	model           pool
	ops             []*rrOp
	mutations       int
	failMeter       bool // the next meter the rebalancer asks for cannot be built
}

func (w *rrWorld) admin() interface {
	UpsertServer(u *url.URL, options ...roundrobin.ServerOption) error
	RemoveServer(u *url.URL) error
	Servers() []*url.URL
} {
	if w.viaRB {
		return w.rb
	}
	return w.rr
}

func (w *rrWorld) handler() http.Handler {
	if w.viaRB {
		return w.rb
	}
	return w.rr
}

func newRRWorld(r *simkit.Run, viaRB, sticky, fine bool) *rrWorld {
	w := &rrWorld{r: r, viaRB: viaRB, sticky: sticky}
	w.sim = simrt.New(r.Chooser())
	w.sim.Fine = fine
	if testing.Verbose() {
		w.sim.TraceF = r.Tracef
	}
	next := http.HandlerFunc(func(rw http.ResponseWriter, req *http.Request) {
		op := req.Context().Value(ctxKey{}).(*rrOp)
		op.invoked = true
		op.outKey = keyOf(req.URL)
		op.selSeq = op.task.LastAcq
		// what a downstream handler may do to the request it was handed
		switch m := req.Context().Value(mutKey{}).(int); m {
		case 1:
			req.URL.Path = "/mutated"
		case 2:
			req.URL.Host = "mutated:1"
		case 3:
			req.URL.Scheme = "gopher"
		case 4:
			req.URL.RawQuery = "mutated=1"
		case 5:
			if req.URL.User != nil {
				*req.URL.User = *url.UserPassword("mut", "ated")
			} else {
				req.URL.User = url.User("mutated")
			}
		case 6:
			*req.URL = url.URL{Scheme: "http", Host: "replaced"}
		}
		if m := req.Context().Value(mutKey{}).(int); m != 0 {
			w.mutations++
		}
		rw.WriteHeader(http.StatusOK)
	})
	var opts []roundrobin.LBOption
	slow := rapid.IntRange(0, 2).Draw(r.T, "slow-logger") == 0
	if slow {
		// the sink of this logger can be made to break once (w.logLeft > 0: that log call panics); the call in whose
		// course it broke is lost to its caller and exempt from the panic check, nothing else is
		w.logLeft = -1
		opts = append(opts, roundrobin.Logger(simkit.FaultyLogger{Left: &w.logLeft, OnPanic: func() {
			w.logPanicTask = w.sim.Current()
			w.r.Fault("logger-panic")
		}}), roundrobin.Verbose(rapid.Bool().Draw(r.T, "verbose")))
		w.faultyLogger = true
	}
	// by draw the balancers are built with the caller's own error handler: the default mapping plus a mark that
	// proves the configured handler (once, and not the built-in one) answered a request that could not be routed
	w.ownErrHandler = rapid.IntRange(0, 2).Draw(r.T, "own-error-handler") == 0
	ownHandler := utils.ErrorHandlerFunc(func(rw http.ResponseWriter, req *http.Request, err error) {
		rw.Header().Add("X-Own-Err-Handler", "1")
		utils.DefaultHandler.ServeHTTP(rw, req, err)
	})
	if w.ownErrHandler {
		opts = append(opts, roundrobin.ErrorHandler(ownHandler))
	}
	w.callerReusesURL = rapid.IntRange(0, 2).Draw(r.T, "caller-reuses-url-values") == 0
	// by draw a request-rewrite listener is configured: it is told about every forwarded request (once), and what
	// it does to the outgoing request's URL must not reach the pool any more than what the handler does
	w.listener = rapid.IntRange(0, 2).Draw(r.T, "rewrite-listener") == 0
	scribble := rapid.Bool().Draw(r.T, "listener-scribbles")
	listen := func(oldReq, newReq *http.Request) {
		if op, ok := oldReq.Context().Value(ctxKey{}).(*rrOp); ok {
			op.listened++
		}
		if scribble && newReq.URL != nil {
			newReq.URL.RawQuery = "listener=1"
			newReq.URL.Fragment = "listener"
		}
	}
	if w.listener && !viaRB {
		opts = append(opts, roundrobin.RoundRobinRequestRewriteListener(listen))
	}
	if sticky && !viaRB {
		opts = append(opts, roundrobin.EnableStickySession(roundrobin.NewStickySession("aff")))
	}
	rr, err := roundrobin.New(next, opts...)
	if err != nil {
		r.T.Fatalf("roundrobin.New: %v", err)
	}
	w.rr = rr
	if rapid.IntRange(0, 2).Draw(r.T, "neighbour-balancer") == 0 {
		nb, err := roundrobin.New(next, opts...)
		if err != nil {
			r.T.Fatalf("roundrobin.New (neighbour): %v", err)
		}
		w.neighbour = nb
	}
	if viaRB {
		ropts := []roundrobin.RebalancerOption{roundrobin.RebalancerMeter(func() (roundrobin.Meter, error) {
			if w.failMeter {
				w.failMeter = false
				return nil, errMeter
			}
			return neverReady{}, nil
		})}
		if sticky {
			ropts = append(ropts, roundrobin.RebalancerStickySession(roundrobin.NewStickySession("aff")))
		}
		if w.ownErrHandler {
			ropts = append(ropts, roundrobin.RebalancerErrorHandler(ownHandler))
		}
		if w.listener {
			ropts = append(ropts, roundrobin.RebalancerRequestRewriteListener(listen))
		}
		if slow {
			ropts = append(ropts, roundrobin.RebalancerLogger(simkit.SlowLogger{}), roundrobin.RebalancerDebug(rapid.Bool().Draw(r.T, "debug")))
		}
		rb, err := roundrobin.NewRebalancer(rr, ropts...)
		if err != nil {
			r.T.Fatalf("NewRebalancer: %v", err)
		}
		w.rb = rb
	}
	return w
}

type mutKey struct{}

var errMeter = fmt.Errorf("simulated: meter cannot be built")

// pokeNeighbour: a second balancer built by the same constructor lives next to the one under test and is
// administered and used on its own; nothing that happens to it is the business of the one under test.
func (w *rrWorld) pokeNeighbour() {
	if w.neighbour == nil || rapid.IntRange(0, 3).Draw(w.r.T, "neighbour-busy") != 0 {
		return
	}
	u := mustURL(fmt.Sprintf("http://neighbour-%d", rapid.IntRange(0, 9).Draw(w.r.T, "neighbour-server")))
	switch rapid.IntRange(0, 2).Draw(w.r.T, "neighbour-op") {
	case 0:
		_ = w.neighbour.UpsertServer(u, roundrobin.Weight(rapid.IntRange(0, 3).Draw(w.r.T, "neighbour-weight")))
	case 1:
		_ = w.neighbour.RemoveServer(u)
	default:
		_, _ = w.neighbour.NextServer()
	}
	w.neighbourOps++
}

func (w *rrWorld) spawn(op *rrOp, fn func()) *rrOp {
	w.pokeNeighbour()
	w.ops = append(w.ops, op)
	op.task = w.sim.Spawn(fmt.Sprintf("%s#%d", op.kind, len(w.ops)), func() {
		op.call = w.sim.Seq
		defer func() { op.ret = w.sim.Seq; op.done = true }()
		fn()
	})
	return op
}

func (w *rrWorld) opUpsert(u *url.URL, hasW bool, wt int) *rrOp {
	op := &rrOp{kind: "upsert", key: keyOf(u), hasW: hasW, w: wt, u: mustURL(u.String())}
	// the URL value handed to the call is the caller's: the caller goes on using it (a loop that fills the pool
	// from one reused URL value) once the call has returned
	u = mustURL(u.String())
	reuse := w.callerReusesURL
	return w.spawn(op, func() {
		if reuse {
			defer func() {
				u.Host, u.Path, u.Scheme = "reused-by-caller:9", "/reused", "https"
			}()
		}
		var err error
		if hasW && wt == -99 {
			err = w.admin().UpsertServer(u) // expected to fail for another reason (meter); the model treats it as refused
		} else if hasW {
			err = w.admin().UpsertServer(u, roundrobin.Weight(wt))
		} else {
			err = w.admin().UpsertServer(u)
		}
		op.err = err != nil
	})
}

// opUpsertPartlyBad updates an existing or new server with a valid weight followed by a refused one:
// the call must fail; whether the valid option took effect before the refusal is left open by the
// statement, so the model afterwards adopts the weight the balancer reports (old or wt, nothing else).
func (w *rrWorld) opUpsertPartlyBad(u *url.URL, wt int) *rrOp {
	op := &rrOp{kind: "upsert-partly-bad", key: keyOf(u), hasW: true, w: wt, u: mustURL(u.String())}
	return w.spawn(op, func() {
		op.err = w.admin().UpsertServer(u, roundrobin.Weight(wt), roundrobin.Weight(-1)) != nil
	})
}

// adoptAfterPartlyBad reconciles the model after opUpsertPartlyBad (coordinator, nothing else running).
func (w *rrWorld) adoptAfterPartlyBad(op *rrOp) {
	if !op.err {
		w.r.Fail("upsert-result", "UpsertServer(%s, Weight(%d), Weight(-1)) returned no error", op.key, op.w)
	}
	i := w.model.find(op.key)
	got, ok := w.rr.ServerWeight(op.u)
	if i < 0 {
		if ok {
			w.r.Fail("pool-mismatch", "a refused update added server %s", op.key)
		}
		return
	}
	if !ok || (got != w.model.m[i].weight && got != op.w) {
		w.r.Fail("weight-mismatch", "after the refused update of %s (valid weight %d, then -1) the balancer reports weight %d,%v; before it was %d", op.key, op.w, got, ok, w.model.m[i].weight)
	}
	w.model.m[i].weight = got
}

func (w *rrWorld) opRemove(u *url.URL) *rrOp {
	op := &rrOp{kind: "remove", key: keyOf(u), u: mustURL(u.String())}
	return w.spawn(op, func() { op.err = w.admin().RemoveServer(u) != nil })
}

func (w *rrWorld) opNext() *rrOp {
	op := &rrOp{kind: "next"}
	return w.spawn(op, func() {
		u, err := w.rr.NextServer()
		op.selSeq = op.task.LastAcq
		if err != nil {
			op.err = true
			return
		}
		op.outKey = keyOf(u)
		// the caller may do what it likes with the URL it got
		u.Path, u.Host = "/scribbled", "scribbled"
	})
}

func (w *rrWorld) opServers() *rrOp {
	op := &rrOp{kind: "servers"}
	return w.spawn(op, func() {
		for _, u := range w.admin().Servers() {
			op.outKeys = append(op.outKeys, keyOf(u)+"#"+u.String())
		}
	})
}

func (w *rrWorld) opWeight(u *url.URL) *rrOp {
	op := &rrOp{kind: "weight", key: keyOf(u)}
	return w.spawn(op, func() { op.outW, op.outOK = w.rr.ServerWeight(u) })
}

// opServe sends one request; cookie != "" presents a raw affinity cookie.
func (w *rrWorld) opServe(mut int, cookie string) *rrOp {
	op := &rrOp{kind: "serve", sticky: cookie != ""}
	req := &http.Request{Method: "GET", URL: &url.URL{Path: "/req"}, Header: http.Header{}, Host: "client", RemoteAddr: "10.0.0.1:1"}
	if cookie != "" {
		req.AddCookie(&http.Cookie{Name: "aff", Value: cookie})
	}
	ctx := context.WithValue(context.WithValue(context.Background(), ctxKey{}, op), mutKey{}, mut)
	req = req.WithContext(ctx)
	rec := simkit.NewRecorder()
	return w.spawn(op, func() {
		w.handler().ServeHTTP(rec, req)
		op.status = rec.Status
		op.ownMarks = len(rec.Snapshot.Values("X-Own-Err-Handler"))
		if !op.invoked {
			op.err = true
			op.selSeq = op.task.LastAcq
		}
		if req.URL.Path != "/req" || req.URL.Host != "" {
			op.status = -1 // the client's own request object was modified
		}
	})
}

func (w *rrWorld) check() {
	if w.sim.Deadlocked() {
		w.r.Fail("deadlock", "no task can run but %d wait for a lock", len(w.sim.Blocked()))
	}
	for _, t := range w.sim.Tasks() {
		if t.Panic != nil && t != w.logPanicTask {
			w.r.Fail("panic", "task %s panicked: %v\n%s", t.Name, t.Panic, t.PanicSite)
		}
	}
}

func contains(l []string, s string) bool {
	for _, x := range l {
		if x == s {
			return true
		}
	}
	return false
}

// verifyQuiescent compares the balancer with the model while nothing else runs.
func (w *rrWorld) verifyQuiescent(where string) {
	r := w.r
	got := map[string]string{}
	for _, u := range w.admin().Servers() {
		got[keyOf(u)] = u.String()
	}
	if w.viaRB {
		// the rebalancer and the balancer beneath it must agree
		under := map[string]bool{}
		for _, u := range w.rr.Servers() {
			under[keyOf(u)] = true
		}
		for k := range got {
			if !under[k] {
				r.Fail("pool-mismatch", "%s: rebalancer lists %s, balancer beneath does not", where, k)
			}
		}
		for k := range under {
			if _, ok := got[k]; !ok {
				r.Fail("pool-mismatch", "%s: balancer beneath lists %s, rebalancer does not", where, k)
			}
		}
	}
	for _, m := range w.model.m {
		s, ok := got[m.key]
		if !ok {
			r.Fail("pool-mismatch", "%s: member %s (%s) missing from Servers() = %v; model %s", where, m.key, m.str, got, w.model.encode())
		}
		if s != m.str {
			r.Fail("pool-altered", "%s: member added as %q is now listed as %q (something rewrote the pool's own URL)", where, m.str, s)
		}
		u := mustURL(m.str)
		wt, ok := w.rr.ServerWeight(u)
		if !ok || wt != m.weight {
			r.Fail("weight-mismatch", "%s: ServerWeight(%s) = %d,%v; the calls so far define %d", where, m.str, wt, ok, m.weight)
		}
		delete(got, m.key)
	}
	for k, s := range got {
		r.Fail("pool-mismatch", "%s: Servers() lists %s (%s) which the calls so far do not define; model %s", where, k, s, w.model.encode())
	}
}

func drawWeightShape(rt *rapid.T, n int) []int {
	ws := make([]int, n)
	switch rapid.IntRange(0, 7).Draw(rt, "shape") {
	case 7: // very large weights with a very large common factor (the rotation is still short)
		g := rapid.SampledFrom([]int{1 << 20, 1 << 31, 1 << 32, 1<<32 + 3, 3 << 32, 1 << 40, 1 << 53}).Draw(rt, "huge-factor")
		for i := range ws {
			ws[i] = g * rapid.IntRange(0, 6).Draw(rt, "mult")
		}
	case 0: // all equal
		v := rapid.IntRange(1, 50).Draw(rt, "equal")
		for i := range ws {
			ws[i] = v
		}
	case 1: // common factor
		g := rapid.IntRange(2, 40).Draw(rt, "factor")
		for i := range ws {
			ws[i] = g * rapid.IntRange(1, 6).Draw(rt, "mult")
		}
	case 2: // zeros mixed in
		for i := range ws {
			ws[i] = rapid.IntRange(0, 4).Draw(rt, "w0")
		}
	case 3: // very unequal
		for i := range ws {
			ws[i] = 1
		}
		ws[rapid.IntRange(0, n-1).Draw(rt, "big-at")] = rapid.IntRange(200, 1500).Draw(rt, "big")
	case 4: // primes
		pr := []int{2, 3, 5, 7, 11, 13, 17}
		for i := range ws {
			ws[i] = rapid.SampledFrom(pr).Draw(rt, "prime")
		}
	default:
		for i := range ws {
			ws[i] = rapid.IntRange(1, 12).Draw(rt, "w")
		}
	}
	return ws
}

func newServeRequest(op *rrOp) *http.Request {
	req := &http.Request{Method: "GET", URL: &url.URL{Path: "/req"}, Header: http.Header{}, Host: "client", RemoteAddr: "10.0.0.1:1"}
	return req.WithContext(context.WithValue(context.WithValue(context.Background(), ctxKey{}, op), mutKey{}, 0))
}
