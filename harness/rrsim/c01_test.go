package rrsim

import (
	"fmt"
	"github.com/vulcand/oxy/v2/roundrobin"
	"net/http"
	"net/url"
	"sort"
	"testing"

	"github.com/vulcand/oxy/v2/zzverif/simkit"
	"pgregory.net/rapid"
)

func TestC01(t *testing.T) {
	simkit.Main(t, "C01", components, c01prop)
}

type selection struct {
	seq uint64
	key string
}

func c01prop(r *simkit.Run) {
	rt := r.T
	viaRB := rapid.Bool().Draw(rt, "via-rebalancer")
	fine := rapid.Bool().Draw(rt, "fine")
	// with sticky sessions enabled, requests carrying a valid affinity cookie are pinned and must not disturb the
	// rotation seen by everybody else: the balanced selections alone still form the exact sequence
	sticky := rapid.IntRange(0, 2).Draw(rt, "sticky-sessions") == 0
	w := newRRWorld(r, viaRB, sticky, false)
	defer w.sim.Shutdown()

	// phase 1: an arbitrary prior history of pool changes and selections (sequential)
	nPrior := rapid.IntRange(0, 20).Draw(rt, "prior-ops")
	for i := 0; i < nPrior; i++ {
		var op *rrOp
		u := mustURL(urlUniverse[rapid.IntRange(0, len(urlUniverse)-1).Draw(rt, "url")])
		switch rapid.IntRange(0, 4).Draw(rt, "prior-op") {
		case 0:
			op = w.opUpsert(u, false, 0)
		case 1:
			wt := rapid.IntRange(0, 9).Draw(rt, "weight")
			if wt == 0 && w.model.find(keyOf(u)) < 0 {
				wt = 1
			}
			op = w.opUpsert(u, true, wt)
		case 2:
			op = w.opRemove(u)
		case 3:
			op = w.opNext()
		default:
			op = w.opServe(0, "")
		}
		w.sim.RunTask(op.task)
		w.check()
		w.applyAdminToModel(op)
	}
	// final shape: n servers with drawn weights; everything else is removed
	n := rapid.IntRange(1, 6).Draw(rt, "servers")
	ws := drawWeightShape(rt, n)
	target := map[string]int{}
	perm := rapid.Permutation(urlUniverse[:8]).Draw(rt, "which-servers")
	var chosen []string
	for _, s := range perm {
		k := keyOf(mustURL(s))
		if _, dup := target[k]; dup {
			continue
		}
		if len(chosen) == n {
			break
		}
		target[k] = ws[len(chosen)]
		chosen = append(chosen, s)
	}
	n = len(chosen)
	for _, m := range append([]member(nil), w.model.m...) {
		if _, keep := target[m.key]; !keep {
			op := w.opRemove(mustURL(m.str))
			w.sim.RunTask(op.task)
			w.applyAdminToModel(op)
		}
	}
	for i, s := range chosen {
		u := mustURL(s)
		wt := ws[i]
		if wt == 0 {
			// zero weights enter by re-weighting an existing server
			op := w.opUpsert(u, false, 0)
			w.sim.RunTask(op.task)
			w.applyAdminToModel(op)
		}
		op := w.opUpsert(u, true, wt)
		w.sim.RunTask(op.task)
		w.applyAdminToModel(op)
	}
	// tail of the prior history: leave the iterator mid-cycle, then make one last change
	switch rapid.IntRange(0, 4).Draw(rt, "tail") {
	case 4: // the last change is a refused update that may have applied its first option
		j := rapid.IntRange(0, n-1).Draw(rt, "tail-server")
		for k := rapid.IntRange(0, 5).Draw(rt, "tail-selections"); k > 0; k-- {
			w.sim.RunTask(w.opNext().task)
		}
		op := w.opUpsertPartlyBad(mustURL(chosen[j]), rapid.IntRange(1, 9).Draw(rt, "tail-weight"))
		w.sim.RunTask(op.task)
		w.adoptAfterPartlyBad(op)
	case 1: // re-weight one server away and back with selections in between
		j := rapid.IntRange(0, n-1).Draw(rt, "tail-server")
		tmp := w.opUpsert(mustURL(chosen[j]), true, ws[j]+rapid.IntRange(1, 7).Draw(rt, "tail-delta"))
		w.sim.RunTask(tmp.task)
		w.applyAdminToModel(tmp)
		for k := rapid.IntRange(0, 9).Draw(rt, "tail-selections"); k > 0; k-- {
			w.sim.RunTask(w.opNext().task)
		}
		back := w.opUpsert(mustURL(chosen[j]), true, ws[j])
		w.sim.RunTask(back.task)
		w.applyAdminToModel(back)
	case 2: // an extra server comes and goes
		x := mustURL("http://extra:9/")
		add := w.opUpsert(x, true, rapid.IntRange(1, 9).Draw(rt, "extra-weight"))
		w.sim.RunTask(add.task)
		w.applyAdminToModel(add)
		for k := rapid.IntRange(0, 9).Draw(rt, "tail-selections"); k > 0; k-- {
			w.sim.RunTask(w.opNext().task)
		}
		rm := w.opRemove(x)
		w.sim.RunTask(rm.task)
		w.applyAdminToModel(rm)
	case 3: // selections only (a no-op for the pool)
		for k := rapid.IntRange(0, 9).Draw(rt, "tail-selections"); k > 0; k-- {
			w.sim.RunTask(w.opNext().task)
		}
	}
	if w.faultyLogger && rapid.IntRange(0, 2).Draw(rt, "log-sink-breaks-in-the-prior-history") == 0 {
		// selections and requests during which the caller's log sink breaks once: the call that was logging is lost;
		// whatever it had consumed of the rotation, what follows is a rotation over the pool as it is
		w.logLeft = rapid.IntRange(1, 12).Draw(rt, "log-call-that-panics")
		for k := rapid.IntRange(1, 12).Draw(rt, "selections-with-a-broken-sink"); k > 0; k-- {
			if rapid.Bool().Draw(rt, "through-servehttp") {
				w.sim.RunTask(w.opServe(0, "").task)
			} else {
				w.sim.RunTask(w.opNext().task)
			}
		}
		w.logLeft = -1
	}
	w.check()
	w.verifyQuiescent("before the selection phase")

	g, sum := 0, 0
	for _, m := range w.model.m {
		g = gcd(g, m.weight)
		sum += m.weight
	}
	// phase 2: frozen pool, K callers
	w.sim.Fine = fine
	K := rapid.IntRange(1, 6).Draw(rt, "callers")
	var sels []selection
	errs := 0
	pinned, pinnedWrong := 0, 0
	refusedCalls, refusedAccepted := 0, 0
	if sum == 0 {
		// all zero (or empty): every selection is an error, never a URL
		for i := 0; i < 6; i++ {
			var op *rrOp
			if rapid.Bool().Draw(rt, "serve?") {
				op = w.opServe(0, "")
			} else {
				op = w.opNext()
			}
			w.sim.RunTask(op.task)
			if !op.err {
				r.Fail("selection-from-unservable-pool", "pool %s: selection %d returned %s", w.model.encode(), i, op.outKey)
			}
		}
		r.FromSim(w.sim)
		r.Probe("all-zero-or-empty-pool")
		return
	}
	W := sum / g
	total := rapid.IntRange(1, 3).Draw(rt, "rounds")*W + rapid.IntRange(0, W-1).Draw(rt, "remainder")
	if total > 6000 {
		total = 6000
	}
	left := total
	phaseStart := len(w.ops)
	for c := 0; c < K; c++ {
		share := left / (K - c)
		if c == K-1 {
			share = left
		}
		left -= share
		useServe := rapid.Bool().Draw(rt, "caller-serves")
		cnt := share
		c := c
		// every few selections this caller also sends a request pinned by a cookie to a positive-weight member
		pinEvery := 0
		pinTo := ""
		if sticky {
			pinEvery = rapid.IntRange(0, 3).Draw(rt, "pinned-every")
			for _, m := range w.model.m {
				if m.weight > 0 {
					pinTo = m.str
				}
			}
		}
		// every few selections this caller also makes an administration call that is refused (a negative weight for a
		// member or for a stranger, the removal of a stranger): the pool is not changed by it and the rotation goes on
		refuseEvery := rapid.IntRange(0, 4).Draw(rt, "refused-call-every")
		refuseKind := rapid.IntRange(0, 2).Draw(rt, "refused-call-kind")
		var member *url.URL
		if len(w.model.m) > 0 {
			member = mustURL(w.model.m[rapid.IntRange(0, len(w.model.m)-1).Draw(rt, "refused-call-member")].str)
		}
		w.sim.Spawn(fmt.Sprintf("caller%d", c), func() {
			for i := 0; i < cnt; i++ {
				if refuseEvery > 0 && i%refuseEvery == refuseEvery-1 {
					var err error
					switch {
					case refuseKind == 0 && member != nil:
						err = w.admin().UpsertServer(member, roundrobin.Weight(-1))
					case refuseKind == 1:
						err = w.admin().UpsertServer(mustURL("http://stranger.invalid"), roundrobin.Weight(-1))
					default:
						err = w.admin().RemoveServer(mustURL("http://stranger.invalid"))
					}
					refusedCalls++
					if err == nil {
						refusedAccepted++
					}
				}
				if pinEvery > 0 && pinTo != "" && i%pinEvery == 0 {
					for k := 0; k < pinEvery; k++ {
						op := &rrOp{kind: "serve", sticky: true}
						op.task = w.sim.Current()
						req := newServeRequest(op)
						req.AddCookie(&http.Cookie{Name: "aff", Value: pinTo})
						w.handler().ServeHTTP(simkit.NewRecorder(), req)
						if !op.invoked || op.outKey != keyOf(mustURL(pinTo)) {
							pinnedWrong++
						}
						pinned++
					}
				}
				if useServe {
					op := &rrOp{kind: "serve"}
					op.task = w.sim.Current()
					req := newServeRequest(op)
					rec := simkit.NewRecorder()
					w.handler().ServeHTTP(rec, req)
					if !op.invoked {
						errs++
						continue
					}
					sels = append(sels, selection{op.selSeq, op.outKey})
				} else {
					u, err := w.rr.NextServer()
					if err != nil {
						errs++
						continue
					}
					sels = append(sels, selection{w.sim.Current().LastAcq, keyOf(u)})
				}
			}
		})
	}
	_ = phaseStart
	w.sim.MaxStep = 400000
	w.sim.Quiesce()
	w.check()
	if refusedAccepted > 0 {
		r.Fail("refused-call-accepted", "%d of %d administration calls that must be refused (negative weight, removal of a stranger) returned no error", refusedAccepted, refusedCalls)
	}
	r.ProbeN("refused-administration-calls-during-measurement", refusedCalls)
	if pinnedWrong > 0 {
		r.Fail("affinity-lost", "%d of %d requests with a valid affinity cookie did not reach their server", pinnedWrong, pinned)
	}
	r.ProbeN("pinned-requests-interleaved", pinned)
	if errs > 0 {
		r.Fail("spurious-error", "%d of %d selections failed on a pool with positive weights %s", errs, total, w.model.encode())
	}
	if len(sels) != total {
		r.Fail("harness", "recorded %d selections, expected %d", len(sels), total)
	}
	sort.SliceStable(sels, func(i, j int) bool { return sels[i].seq < sels[j].seq })
	want := map[string]int{}
	for _, m := range w.model.m {
		want[m.key] = m.weight / g
	}
	// (a) every window of W consecutive selections, at every offset
	cnt := map[string]int{}
	for i, s := range sels {
		if _, ok := want[s.key]; !ok {
			r.Fail("routed-outside-pool", "selection %d is %s, pool %s", i, s.key, w.model.encode())
		}
		cnt[s.key]++
		if i >= W {
			cnt[sels[i-W].key]--
		}
		if i >= W-1 {
			for k, v := range want {
				if cnt[k] != v {
					r.Fail("window-share", "selections %d..%d (a window of W=%d) contain %s %d times, weights %s require exactly %d (callers=%d fine=%v via-rebalancer=%v)",
						i-W+1, i, W, k, cnt[k], w.model.encode(), v, K, fine, viaRB)
				}
			}
		}
	}
	r.FromSim(w.sim)
	if total >= W && len(want) >= 2 {
		r.Nontrivial()
	}
	if K >= 2 && fine {
		r.Probe("concurrent-callers-fine")
	}
	if g > 1 {
		r.Probe("common-factor")
	}
	for _, v := range want {
		if v == 0 {
			r.Probe("zero-weight-member")
			break
		}
	}
	if nPrior > 0 {
		r.Probe("prior-history")
	}
	r.Sample(func() any {
		var first []string
		for i, s := range sels {
			if i >= 30 {
				break
			}
			first = append(first, s.key)
		}
		return map[string]any{"weights": w.model.encode(), "W": W, "selections": total, "callers": K, "fine": fine, "via_rebalancer": viaRB, "first_selections": first}
	})
}
