package rrsim

import (
	"context"
	crand "crypto/rand"
	"fmt"
	"net/http"
	"net/url"
	"strings"
	"testing"
	"time"

	"github.com/vulcand/oxy/v2/internal/holsterv4/clock"
	"github.com/vulcand/oxy/v2/roundrobin"
	"github.com/vulcand/oxy/v2/roundrobin/stickycookie"
	"github.com/vulcand/oxy/v2/zzverif/simkit"
	"pgregory.net/rapid"
)

func TestC11(t *testing.T) {
	simkit.Main(t, "C11", components, c11prop)
}

type codecSpec struct {
	kind string // raw, hash, aes, fallback
	salt string
	key  []byte
	ttl  time.Duration
	from *codecSpec
	to   *codecSpec
}

func (c *codecSpec) String() string {
	switch c.kind {
	case "hash":
		return fmt.Sprintf("hash(%q)", c.salt)
	case "aes":
		return fmt.Sprintf("aes(%d-byte key, ttl %v)", len(c.key), c.ttl)
	case "fallback":
		return fmt.Sprintf("fallback(%v -> %v)", c.from, c.to)
	}
	return "raw"
}

func (c *codecSpec) build(rt *rapid.T) stickycookie.CookieValue {
	switch c.kind {
	case "hash":
		return &stickycookie.HashValue{Salt: c.salt}
	case "aes":
		v, err := stickycookie.NewAESValue(c.key, c.ttl)
		if err != nil {
			rt.Fatalf("aes: %v", err)
		}
		return v
	case "fallback":
		v, err := stickycookie.NewFallbackValue(c.from.build(rt), c.to.build(rt))
		if err != nil {
			rt.Fatalf("fallback: %v", err)
		}
		return v
	}
	return &stickycookie.RawValue{}
}

// minting codec: the one whose Get produces the cookie (for expiry and for the raw-specific classes)
func (c *codecSpec) minter() *codecSpec {
	if c.kind == "fallback" {
		return c.to.minter()
	}
	return c
}

// per run, reset by c11prop
var aesKeys int

// detReader replaces crypto/rand.Reader for the duration of a run: the AES nonce is then a function of the run's seed,
// so that a corruption "at byte k" has the same effect every time the run is replayed.
type detReader struct{ x uint64 }

func (d *detReader) Read(p []byte) (int, error) {
	for i := range p {
		d.x = d.x*6364136223846793005 + 1442695040888963407
		p[i] = byte(d.x >> 33)
	}
	return len(p), nil
}

func drawCodec(rt *rapid.T, depth int) *codecSpec {
	kinds := []string{"raw", "hash", "aes", "aes"}
	if depth > 0 {
		kinds = append(kinds, "fallback", "fallback")
	}
	c := &codecSpec{kind: rapid.SampledFrom(kinds).Draw(rt, "codec")}
	switch c.kind {
	case "hash":
		c.salt = rapid.SampledFrom([]string{"", "salt", "pepper!"}).Draw(rt, "salt")
	case "aes":
		n := rapid.SampledFrom([]int{16, 24, 32}).Draw(rt, "keylen")
		// every AES codec of a chain gets its own key: with one key shared by a ttl-less and a ttl-carrying codec the
		// chain itself ("any codec may accept") makes expiry unenforceable, which is configuration, not behaviour
		aesKeys++
		c.key = []byte(strings.Repeat(string(rune('a'+aesKeys%20)), n))
		if rapid.Bool().Draw(rt, "with-ttl") {
			// from seconds to a "remember me" cookie of twenty years
			c.ttl = time.Duration(rapid.SampledFrom([]int{1, 5, 60, 3600, 86400 * 30, 86400 * 365 * 20}).Draw(rt, "ttl-s")) * time.Second
			if rapid.IntRange(0, 3).Draw(rt, "fractional-ttl") == 0 {
				c.ttl = time.Duration(rapid.SampledFrom([]int{1500, 2500, 2999, 10001}).Draw(rt, "ttl-ms")) * time.Millisecond
			}
		}
	case "fallback":
		c.from = drawCodec(rt, depth-1)
		c.to = drawCodec(rt, depth-1)
	}
	return c
}

// foreign returns the same codec shape under another key / salt
func (c *codecSpec) foreign() *codecSpec {
	f := *c
	switch c.kind {
	case "hash":
		f.salt = c.salt + "x"
	case "aes":
		f.key = []byte(strings.Repeat("F", len(c.key)))
	case "fallback":
		f.from, f.to = c.from.foreign(), c.to.foreign()
	}
	return &f
}

// generator classes for server URLs
const (
	urlPlain     = "plain"
	urlSemicolon = "c11.url-with-semicolon"     // ';' is legal in a URL path or query but not in a cookie value
	urlPipe      = "c11.url-with-pipe-in-query" // '|' in the query collides with the AES ttl separator
)

// nearTwin derives from a member's URL another valid URL that is a different server and almost the same text: the
// other scheme, the scheme/host boundary shifted by a letter (https://api... and http://sapi...), a trailing slash
// more or less, one more digit in the port, another letter case in the path.
func nearTwin(rt *rapid.T, base string) string {
	u, err := url.Parse(base)
	if err != nil || u.Host == "" || strings.HasPrefix(u.Host, "[") {
		return base
	}
	u.User, u.RawQuery = nil, ""
	switch rapid.IntRange(0, 4).Draw(rt, "twin-kind") {
	case 0:
		u.Scheme = map[string]string{"http": "https", "https": "http"}[u.Scheme]
	case 1:
		if u.Scheme == "https" {
			u.Scheme, u.Host = "http", "s"+u.Host
		} else if strings.HasPrefix(u.Host, "s") && len(u.Hostname()) > 1 {
			u.Scheme, u.Host = "https", u.Host[1:]
		} else {
			u.Host = "s" + u.Host // so that a later twin of this one can be the https one
		}
	case 2:
		if strings.HasSuffix(u.Path, "/") {
			u.Path, u.RawPath = strings.TrimSuffix(u.Path, "/"), ""
		} else {
			u.Path, u.RawPath = u.Path+"/", ""
		}
	case 3:
		if u.Port() != "" {
			u.Host = u.Hostname() + ":" + u.Port()[:len(u.Port())-1]
		} else {
			u.Host += ":80"
		}
	default:
		u.Path, u.RawPath = strings.ToUpper(u.Path), ""
	}
	return u.String()
}

func drawServerURL(rt *rapid.T, i int, class string, prev []string) string {
	if class == urlPlain && len(prev) > 0 && rapid.IntRange(0, 3).Draw(rt, "near-twin-of-a-member") == 0 {
		return nearTwin(rt, prev[rapid.IntRange(0, len(prev)-1).Draw(rt, "twin-of")])
	}
	scheme := rapid.SampledFrom([]string{"http", "http", "https"}).Draw(rt, "scheme")
	host := []string{"a", "sb", "c", "10.0.0.1", "[::1]"}[i%5]
	if rapid.Bool().Draw(rt, "port") {
		host += fmt.Sprintf(":%d", 8000+i)
	}
	user := rapid.SampledFrom([]string{"", "", "u@", "u:p@", "John%20Doe@"}).Draw(rt, "userinfo")
	path := rapid.SampledFrom([]string{"", "/", "/p", "/p/q/", "/p%2Fq", "/%C3%A9", "/a%20b", "/~x"}).Draw(rt, "path")
	query := rapid.SampledFrom([]string{"", "", "?x=1", "?x=1&y=%2F", "?q"}).Draw(rt, "query")
	switch class {
	case urlSemicolon:
		if rapid.Bool().Draw(rt, "semi-in-path") {
			path = "/x;y"
		} else {
			query = "?a=1;b=2"
		}
	case urlPipe:
		query = "?a=b|c"
	}
	return scheme + "://" + user + host + path + query
}

type session struct {
	id      int
	cookie  string // value the client holds ("" = none)
	has     bool
	srv     string // key of the server the cookie was issued for
	mint    time.Duration
	touched bool // the stored cookie was corrupted / forged since it was issued
	noAge   bool // an altered cookie that was accepted: when it expires is not known to the client
	how     string
}

func c11prop(r *simkit.Run) {
	rt := r.T
	// wall clock anywhere from 2001 to 2106 (the 32-bit boundaries of Unix time in 2038 and 2106 lie inside)
	epochS := rapid.Int64Range(1_000_000_000, 2_000_000_000).Draw(rt, "epoch-s")
	if rapid.IntRange(0, 3).Draw(rt, "late-clock") == 0 {
		epochS = rapid.Int64Range(2_000_000_000, 4_400_000_000).Draw(rt, "epoch-late-s")
	}
	clock.Freeze(time.Unix(epochS, rapid.Int64Range(0, 999_999_999).Draw(rt, "epoch-ns")).UTC())
	defer clock.Unfreeze()
	start := clock.Now().UTC()
	now := func() time.Duration { return clock.Now().UTC().Sub(start) }
	aesKeys = 0
	oldRand := crand.Reader
	crand.Reader = &detReader{x: uint64(rapid.Int64().Draw(rt, "nonce-seed"))}
	defer func() { crand.Reader = oldRand }()
	spec := drawCodec(rt, 2)
	cv := spec.build(rt)
	foreign := spec.foreign().build(rt)
	ttl := spec.minter().ttl
	viaRB := rapid.Bool().Draw(rt, "via-rebalancer")

	// URL class of this run; open known findings are taken out of the search space
	class := urlPlain
	if only := simkit.Only(); only != "" {
		class = only
	} else {
		var classes []string
		for _, c := range []string{urlSemicolon, urlPipe} {
			if !simkit.KnownOpen(c) {
				classes = append(classes, c)
			}
		}
		if len(classes) > 0 && rapid.IntRange(0, 4).Draw(rt, "special-url") == 0 {
			class = rapid.SampledFrom(classes).Draw(rt, "url-class")
		}
	}

	var reached string
	failMeter := false
	// By draw the caller has a request-rewrite listener, and it does what the hook is for: it re-targets the outgoing
	// request (joins the client's path under the server's, sends it to another port or scheme of the same machine),
	// editing the URL it is shown or putting another in its place. The server a request was routed to is the one the
	// listener was shown; the affinity cookie names that server, whatever the listener then makes of the URL.
	listenerKind := rapid.SampledFrom([]int{0, 0, 0, 1, 2, 3}).Draw(rt, "rewrite-listener")
	listen := func(_, newReq *http.Request) {
		reached = keyOf(newReq.URL)
		switch listenerKind {
		case 1:
			newReq.URL.Path = strings.TrimSuffix(newReq.URL.Path, "/") + "/joined/client/path"
			newReq.URL.RawPath = ""
		case 2:
			newReq.URL = &url.URL{Scheme: "https", Host: "elsewhere.invalid:8443", Path: "/re-targeted"}
		case 3:
			newReq.URL.Host = "re-targeted-" + newReq.URL.Host
			if newReq.URL.Scheme == "http" {
				newReq.URL.Scheme = "https"
			} else {
				newReq.URL.Scheme = "http"
			}
		}
	}
	next := http.HandlerFunc(func(rw http.ResponseWriter, req *http.Request) {
		if listenerKind == 0 {
			reached = keyOf(req.URL)
		}
		rw.WriteHeader(http.StatusOK)
	})
	sticky := roundrobin.NewStickySession("aff").SetCookieValue(cv)
	var handler http.Handler
	var admin interface {
		UpsertServer(u *url.URL, options ...roundrobin.ServerOption) error
		RemoveServer(u *url.URL) error
	}
	// direct: with a rebalancer in front, some servers are administered on the balancer it wraps (a pool that
	// was populated before it was wrapped, or is looked after by somebody holding the inner balancer): they are
	// members of the pool all the same. One server is administered through one handle for the whole run.
	var inner *roundrobin.RoundRobin
	direct := map[string]bool{}
	if viaRB {
		rr, _ := roundrobin.New(next)
		inner = rr
		rbOpts := []roundrobin.RebalancerOption{roundrobin.RebalancerStickySession(sticky),
			roundrobin.RebalancerMeter(func() (roundrobin.Meter, error) {
				if failMeter {
					failMeter = false
					return nil, errMeter
				}
				return neverReady{}, nil
			})}
		if listenerKind != 0 {
			rbOpts = append(rbOpts, roundrobin.RebalancerRequestRewriteListener(listen))
		}
		rb, err := roundrobin.NewRebalancer(rr, rbOpts...)
		if err != nil {
			rt.Fatalf("rebalancer: %v", err)
		}
		handler, admin = rb, rb
	} else {
		rrOpts := []roundrobin.LBOption{roundrobin.EnableStickySession(sticky)}
		if listenerKind != 0 {
			rrOpts = append(rrOpts, roundrobin.RoundRobinRequestRewriteListener(listen))
		}
		rr, err := roundrobin.New(next, rrOpts...)
		if err != nil {
			rt.Fatalf("rr: %v", err)
		}
		handler, admin = rr, rr
	}
	var model pool
	universe := map[string]string{} // key -> url string
	var keys []string
	nURL := rapid.IntRange(1, 5).Draw(rt, "urls")
	for i := 0; len(keys) < nURL && i < 12; i++ {
		var prev []string
		for _, k := range keys {
			prev = append(prev, universe[k])
		}
		s := drawServerURL(rt, i, class, prev)
		u, err := url.Parse(s)
		if err != nil {
			continue
		}
		if _, dup := universe[keyOf(u)]; dup {
			continue
		}
		universe[keyOf(u)] = s
		keys = append(keys, keyOf(u))
	}
	var trace []string
	note := func(format string, args ...any) {
		if len(trace) < 120 {
			trace = append(trace, fmt.Sprintf("t=%v ", now())+fmt.Sprintf(format, args...))
		}
	}
	fail := func(kind, format string, args ...any) {
		r.Tracef("history: %v", trace)
		r.Fail(kind, format+fmt.Sprintf(" [codec %v, pool %s]", spec, model.encode()), args...)
	}
	directAdds := 0
	callerReuses := rapid.Bool().Draw(rt, "caller-reuses-the-url-value-it-passed")
	add := func(k string, w int) {
		u := mustURL(universe[k])
		if _, known := direct[k]; !known {
			direct[k] = inner != nil && rapid.IntRange(0, 3).Draw(rt, "administered-on-the-inner-balancer") == 0
		}
		var err error
		if direct[k] {
			err = inner.UpsertServer(u, roundrobin.Weight(w))
			directAdds++
		} else {
			err = admin.UpsertServer(u, roundrobin.Weight(w))
		}
		if err != nil {
			fail("upsert-failed", "UpsertServer(%s): %v", universe[k], err)
		}
		model.upsert(mustURL(universe[k]), true, w)
		note("upsert %s w=%d direct=%v", universe[k], w, direct[k])
		// the URL value is the caller's: once the call has returned the caller may re-use it for something else
		if callerReuses {
			u.Scheme, u.Host, u.Path, u.RawPath, u.User = "ftp", "scribbled:1", "/scribbled", "", nil
		}
	}
	add(keys[0], 1)
	for _, k := range keys[1:] {
		if rapid.Bool().Draw(rt, "initially-in") {
			add(k, rapid.IntRange(1, 3).Draw(rt, "w"))
		}
	}
	nsess := rapid.IntRange(1, 3).Draw(rt, "sessions")
	sess := make([]*session, nsess)
	for i := range sess {
		sess[i] = &session{id: i}
	}
	pinned, rebalanced, corrupted, expiredSeen, removedSrv := 0, 0, 0, 0, 0
	h := simkit.NewHash()

	doRequest := func(s *session) {
		req := &http.Request{Method: "GET", URL: &url.URL{Path: "/"}, Header: http.Header{}, Host: "client", RemoteAddr: "10.0.0.1:1"}
		req = req.WithContext(context.Background())
		// the browser sends other cookies too: before or after the affinity cookie, some with names that differ from
		// it only in case or by a suffix (cookie names are case-sensitive)
		var before, after []*http.Cookie
		for k, n := 0, rapid.IntRange(0, 2).Draw(rt, "other-cookies"); k < n; k++ {
			c := &http.Cookie{Name: rapid.SampledFrom([]string{"AFF", "Aff", "aff2", "xaff", "session"}).Draw(rt, "other-cookie"), Value: rapid.SampledFrom([]string{"42", "http://nowhere", "zzz"}).Draw(rt, "other-value")}
			if rapid.Bool().Draw(rt, "other-first") {
				before = append(before, c)
			} else {
				after = append(after, c)
			}
		}
		for _, c := range before {
			req.AddCookie(c)
		}
		if s.has {
			req.AddCookie(&http.Cookie{Name: "aff", Value: s.cookie})
		}
		for _, c := range after {
			req.AddCookie(c)
		}
		rec := simkit.NewRecorder()
		reached = ""
		r.Guard(fmt.Sprintf("request of session %d with cookie %q (%s)", s.id, s.cookie, s.how), func() { handler.ServeHTTP(rec, req) })
		var fresh *http.Cookie
		for _, c := range (&http.Response{Header: rec.Snapshot}).Cookies() {
			if c.Name == "aff" {
				fresh = c
			}
		}
		note("session %d request cookie=%q (%s) -> status %d reached %s set-cookie=%v", s.id, s.cookie, s.how, rec.Status, reached, fresh != nil)
		h.Str(reached)
		if rec.Status != http.StatusOK || reached == "" {
			fail("rejected", "session %d: request with cookie %q (%s) answered %d, handler reached %q: requests must never be rejected", s.id, s.cookie, s.how, rec.Status, reached)
		}
		if model.find(reached) < 0 {
			fail("routed-outside-pool", "session %d: request reached %s which is not a member", s.id, reached)
		}
		inPool := s.has && model.find(s.srv) >= 0
		age := now() - s.mint
		certainlyValid := ttl == 0 || age < ttl-time.Second
		certainlyExpired := ttl > 0 && age > ttl+time.Second
		if s.noAge && ttl > 0 {
			certainlyValid, certainlyExpired = false, false
		}
		switch {
		case s.has && !s.touched && inPool && certainlyValid:
			pinned++
			if reached != s.srv {
				fail("affinity-lost", "session %d holds the cookie %q issued for %s %v ago, the server is in the pool, but the request was routed to %s", s.id, s.cookie, s.srv, age, reached)
			}
		case !s.has || (s.has && !s.touched && (!inPool || certainlyExpired)):
			rebalanced++
			if certainlyExpired && inPool {
				expiredSeen++
			}
			if fresh == nil {
				fail("no-fresh-cookie", "session %d (cookie present=%v, its server in pool=%v, age %v, ttl %v): balanced to %s but no fresh cookie was issued", s.id, s.has, inPool, age, ttl, reached)
			}
		}
		if fresh != nil {
			s.cookie, s.has, s.srv, s.mint, s.touched, s.noAge, s.how = fresh.Value, true, reached, now(), false, false, "as issued"
		} else if s.has && s.touched {
			// the altered cookie was accepted as naming `reached`; from now on it must keep doing so
			s.srv, s.touched, s.noAge, s.how = reached, false, true, s.how+", accepted"
		}
	}

	nops := rapid.IntRange(4, deep(60, 200)).Draw(rt, "ops")
	for i := 0; i < nops; i++ {
		s := sess[rapid.IntRange(0, nsess-1).Draw(rt, "session")]
		switch rapid.SampledFrom([]string{"req", "req", "req", "req", "corrupt", "pool", "pool", "advance"}).Draw(rt, "op") {
		case "req":
			doRequest(s)
		case "corrupt":
			if !s.has {
				continue
			}
			corrupted++
			c := s.cookie
			kind := rapid.SampledFrom([]string{"truncate", "flip", "base64-alphabet", "case", "append", "empty", "foreign-key", "for-non-member", "drop"}).Draw(rt, "corruption")
			switch kind {
			case "truncate":
				if len(c) > 0 {
					c = c[:rapid.IntRange(0, len(c)-1).Draw(rt, "at")]
				}
			case "flip":
				if len(c) > 0 {
					b := []byte(c)
					i := rapid.IntRange(0, len(b)-1).Draw(rt, "at")
					b[i] ^= byte(1 << rapid.IntRange(0, 4).Draw(rt, "bit"))
					if b[i] < 0x21 || b[i] > 0x7e || strings.ContainsRune("\";,\\", rune(b[i])) {
						b[i] = 'Z'
					}
					c = string(b)
				}
			case "base64-alphabet":
				c = strings.NewReplacer("-", "+", "_", "/").Replace(c) + "=="
			case "case":
				if rapid.Bool().Draw(rt, "upper") {
					c = strings.ToUpper(c)
				} else {
					c = strings.ToLower(c)
				}
			case "append":
				c += rapid.SampledFrom([]string{"A", "%", "|0", "|99999999999"}).Draw(rt, "suffix")
			case "empty":
				c = ""
			case "foreign-key":
				// a cookie minted for some member under another key / salt
				if len(model.m) > 0 {
					m := model.m[rapid.IntRange(0, len(model.m)-1).Draw(rt, "forged-for")]
					c = foreign.Get(mustURL(m.str))
				}
			case "for-non-member":
				// a genuine cookie (right key) for a URL that is not in the pool now
				var out []string
				for _, k := range keys {
					if model.find(k) < 0 {
						out = append(out, k)
					}
				}
				if len(out) > 0 {
					c = cv.Get(mustURL(universe[out[rapid.IntRange(0, len(out)-1).Draw(rt, "non-member")]]))
				}
			case "drop":
				s.has, s.cookie = false, ""
			}
			s.how = "altered: " + kind
			if kind != "drop" {
				if c == s.cookie {
					corrupted--
					s.how = "as issued"
				} else {
					s.cookie, s.touched = c, true
				}
			}
			note("session %d cookie %s -> %q", s.id, kind, s.cookie)
		case "pool":
			k := keys[rapid.IntRange(0, len(keys)-1).Draw(rt, "which")]
			if i := model.find(k); i >= 0 {
				switch rapid.IntRange(0, 2).Draw(rt, "change") {
				case 0:
					if len(model.positive()) > 1 || model.m[i].weight == 0 {
						var err error
						if direct[k] {
							err = inner.RemoveServer(mustURL(model.m[i].str))
						} else {
							err = admin.RemoveServer(mustURL(model.m[i].str))
						}
						if err != nil {
							fail("remove-failed", "RemoveServer: %v", err)
						}
						delete(direct, k) // a later re-add may go either way
						note("remove %s", model.m[i].str)
						model.remove(mustURL(universe[k]))
						removedSrv++
					}
				case 1:
					w := rapid.IntRange(0, 3).Draw(rt, "w")
					if w == 0 && len(model.positive()) <= 1 && model.m[i].weight > 0 {
						w = 1
					}
					add(k, w)
				default:
					add(k, model.m[i].weight)
				}
			} else if viaRB && rapid.IntRange(0, 3).Draw(rt, "meter-fails") == 0 {
				// the rebalancer cannot build a meter for the new server: the add must fail and leave no trace
				failMeter = true
				if err := admin.UpsertServer(mustURL(universe[k]), roundrobin.Weight(1)); err == nil {
					fail("upsert-result", "UpsertServer(%s) succeeded although its meter could not be built", universe[k])
				}
				failMeter = false
				note("failed add of %s", universe[k])
			} else {
				add(k, rapid.IntRange(1, 3).Draw(rt, "w"))
			}
		case "advance":
			var d time.Duration
			if ttl > 0 && rapid.Bool().Draw(rt, "around-ttl") {
				d = ttl + time.Duration(rapid.IntRange(-3, 3).Draw(rt, "ttl-off"))*time.Second
			} else {
				d = time.Duration(rapid.IntRange(1, 5000).Draw(rt, "adv-ms")) * time.Millisecond
			}
			// the harness measures ages as time.Duration, which holds 292 years: a run stays within 250
			if d > 0 && now()+d < 250*365*24*time.Hour {
				clock.Advance(d)
				r.SimTime(d)
			}
		}
	}
	for _, s := range sess {
		doRequest(s)
	}
	r.SetDigest(uint64(h))
	if pinned >= 2 && len(model.m) >= 1 && rebalanced >= 1 {
		r.Nontrivial()
	}
	r.ProbeN("pinned-requests", pinned)
	r.ProbeN("rebalanced-requests", rebalanced)
	r.ProbeN("cookie-corruptions", corrupted)
	r.ProbeN("expired-cookie-presented", expiredSeen)
	r.ProbeN("server-removed", removedSrv)
	r.ProbeN("server-administered-on-the-inner-balancer", directAdds)
	r.Probe("codec-" + spec.kind)
	r.Probe("url-class-" + class)
	r.Sample(func() any {
		return map[string]any{"codec": spec.String(), "via_rebalancer": viaRB, "url_class": class, "urls": universe, "history": trace}
	})
}
