package rrsim

import (
	"context"
	"fmt"
	"math/big"
	"net/http"
	"net/url"
	"sort"
	"testing"
	"time"

	"github.com/vulcand/oxy/v2/internal/holsterv4/clock"
	"github.com/vulcand/oxy/v2/roundrobin"
	"github.com/vulcand/oxy/v2/zzverif/simkit"
	"github.com/vulcand/oxy/v2/zzverif/simrt"
	"pgregory.net/rapid"
)

func TestC10(t *testing.T) {
	simkit.Main(t, "C10", components, c10prop)
}

type scriptMeter struct {
	w   *c10World
	key string
}

// Rating: with jitter on, successive reads of one meter differ in the seventh
// digit (a live meter is not frozen while the rebalancer looks at it); the
// relative jitter never changes which side of the split a clear-cut rating is on.
func (m *scriptMeter) Rating() float64 {
	v := m.w.rating[m.key]
	if m.w.jitter {
		m.w.reads++
		v *= 1 + float64(m.w.reads%3-1)*1e-6
		if v > 1 {
			v = 1
		}
	}
	return v
}
func (m *scriptMeter) Record(int, time.Duration) { m.w.recorded++ }
func (m *scriptMeter) IsReady() bool             { return !m.w.notReady[m.key] }

type c10World struct {
	r        *simkit.Run
	rr       *roundrobin.RoundRobin
	rb       *roundrobin.Rebalancer
	backoff  time.Duration
	scripted bool
	jitter   bool // scripted meters: successive reads differ slightly
	reads    int
	model    pool
	rating   map[string]float64
	notReady map[string]bool
	errRate  map[string]int // real meter: per-server failure percentage of the simulated backend
	pending  string         // key of the server being upserted (meter construction)
	recorded int
	start    time.Time
	trace    []string
	// observation state
	eff          map[string]int
	lastAdjust   time.Duration // time of the last weight change made by the rebalancer (no admin call since), -1 none
	lastChange   time.Duration // time of the last weight change or reset of any kind
	missedOpp    int
	outlierSince time.Duration // since when the current clear-cut outlier set has been standing (-1: none)
	outlierSet   string
	firstMiss    time.Duration // completion time of the first qualifying request without loss of share (-1: none)
	equalSince   bool
	equalChanges int
	equalReached bool
	adjustments  int
	opportun     int
	capHits      int
	overlaps     int
	flaky        *flakyBalancer
	refusals     int
}

// flakyBalancer is the stock balancer, except that it refuses the next removal when told to.
type flakyBalancer struct {
	*roundrobin.RoundRobin
	refuseNextRemoval bool
}

func (f *flakyBalancer) RemoveServer(u *url.URL) error {
	if f.refuseNextRemoval {
		f.refuseNextRemoval = false
		return fmt.Errorf("simulated: the registry is unreachable, %v stays", u)
	}
	return f.RoundRobin.RemoveServer(u)
}

func (w *c10World) now() time.Duration { return clock.Now().UTC().Sub(w.start) }

func (w *c10World) note(format string, args ...any) {
	if len(w.trace) < 150 {
		w.trace = append(w.trace, fmt.Sprintf("t=%v ", w.now())+fmt.Sprintf(format, args...))
	}
}

func (w *c10World) snapshot() map[string]int {
	out := map[string]int{}
	for _, m := range w.model.m {
		wt, ok := w.rr.ServerWeight(mustURL(m.str))
		if !ok {
			w.r.Tracef("history: %v", w.trace)
			w.r.Fail("member-lost", "server %s is configured but the balancer beneath the rebalancer does not know it", m.key)
		}
		out[m.key] = wt
	}
	return out
}

func sameWeights(a, b map[string]int) bool {
	if len(a) != len(b) {
		return false
	}
	for k, v := range a {
		if b[k] != v {
			return false
		}
	}
	return true
}

func sumW(m map[string]int) int64 {
	var s int64
	for _, v := range m {
		s += int64(v)
	}
	return s
}

// clearCut: a strict minority B rated >= 0.5, everybody else rated alike and
// <= 0.05, all ready. (With unequal small ratings whether 0.01 is itself an
// outlier next to 0 depends on the constants of the split rule.)
func (w *c10World) clearCut() []string {
	if len(w.model.m) < 2 {
		return nil
	}
	var bad []string
	good := -1.0
	for _, m := range w.model.m {
		if w.notReady[m.key] {
			return nil
		}
		switch rt := w.rating[m.key]; {
		case rt >= 0.5:
			bad = append(bad, m.key)
		case rt <= 0.05:
			if good >= 0 && rt != good {
				return nil
			}
			good = rt
		default:
			return nil
		}
	}
	if len(bad) == 0 || 2*len(bad) >= len(w.model.m) {
		return nil
	}
	return bad
}

func (w *c10World) allEqualReady() bool {
	if len(w.model.m) < 2 {
		return false
	}
	first := w.rating[w.model.m[0].key]
	for _, m := range w.model.m {
		if w.notReady[m.key] || w.rating[m.key] != first {
			return false
		}
	}
	return true
}

func (w *c10World) proportional(eff map[string]int) bool {
	// eff_i * conf_j == eff_j * conf_i for all i, j
	for _, a := range w.model.m {
		for _, b := range w.model.m {
			if int64(eff[a.key])*int64(b.weight) != int64(eff[b.key])*int64(a.weight) {
				return false
			}
		}
	}
	return true
}

func (w *c10World) fail(kind, format string, args ...any) {
	w.r.Tracef("history: %v", w.trace)
	w.r.Fail(kind, format+fmt.Sprintf(" [backoff %v, configured %s]", w.backoff, w.model.encode()), args...)
}

// universal invariants on the effective weights
func (w *c10World) checkRange(eff map[string]int, where string) {
	for _, m := range w.model.m {
		if m.weight <= 0 {
			continue
		}
		hi := 4096
		if m.weight > hi {
			hi = m.weight
		}
		if eff[m.key] < 1 || eff[m.key] > hi {
			w.fail("weight-range", "%s: server %s configured %d has effective weight %d, outside [1, %d]", where, m.key, m.weight, eff[m.key], hi)
		}
		if eff[m.key] == hi {
			w.capHits++
		}
	}
}

// afterAdmin: changed = the call changed the membership or a configured weight.
// A call that changes neither may restore the configured weights or leave the
// effective ones alone; anything else is wrong.
func (w *c10World) afterAdmin(what string, changed bool) {
	eff := w.snapshot()
	w.note("%s -> effective %v", what, eff)
	if !changed && sameWeights(eff, w.eff) {
		// still an administration call: spacing and progress are judged afresh from here
		w.lastAdjust = -1
		w.lastChange = w.now()
		w.outlierSince, w.firstMiss = -1, -1
		return
	}
	for _, m := range w.model.m {
		if eff[m.key] != m.weight {
			w.fail("not-restored", "after %s server %s has effective weight %d, configured %d: a membership or configured-weight change must restore all configured weights at once", what, m.key, eff[m.key], m.weight)
		}
	}
	w.eff = eff
	w.lastAdjust = -1
	w.lastChange = w.now()
	w.outlierSince, w.firstMiss = -1, -1
	w.equalSince, w.equalChanges, w.equalReached = w.scripted && w.allEqualReady(), 0, false
}

// overlap: an administration call (removal or re-weighting of a member) arrives while a request is being served; the
// two run as tasks of a scheduler that decides, lock operation by lock operation, who goes on. Whatever the order, once
// both have returned the pool has the new membership, and the weights are the configured ones - or, if the request's
// adjustment came after the change, one adjustment away from them: in range, and no outlier with a larger share.
func (w *c10World) overlap(m member, remove bool, wt int) {
	sim := simrt.New(w.r.Chooser())
	sim.Fine = true
	u := mustURL(m.str)
	rec := simkit.NewRecorder()
	req := (&http.Request{Method: "GET", URL: &url.URL{Path: "/"}, Header: http.Header{}, RemoteAddr: "10.0.0.1:1"}).WithContext(context.WithValue(context.Background(), ctxKey{}, (func(string) int)(nil)))
	var aerr error
	what := fmt.Sprintf("upsert %s w=%d", m.str, wt)
	if remove {
		what = "remove " + m.str
	}
	tR := sim.Spawn("request", func() { w.rb.ServeHTTP(rec, req) })
	tA := sim.Spawn("admin", func() {
		if remove {
			aerr = w.rb.RemoveServer(u)
		} else {
			w.pending = m.key
			aerr = w.rb.UpsertServer(u, roundrobin.Weight(wt))
		}
	})
	sim.Quiesce()
	dead := sim.Deadlocked()
	pR, pA := tR.Panic, tA.Panic
	sim.Shutdown()
	w.overlaps++
	if pR != nil || pA != nil {
		w.fail("panic", "%s while a request was being served: request task %v, administration task %v", what, pR, pA)
	}
	if dead {
		w.fail("deadlock", "%s while a request was being served: neither can go on", what)
	}
	if aerr != nil {
		w.fail("upsert-failed", "%s while a request was being served: %v", what, aerr)
	}
	if remove {
		w.model.remove(u)
		delete(w.rating, m.key)
		delete(w.notReady, m.key)
	} else {
		w.model.upsert(u, true, wt)
	}
	var got []string
	for _, su := range w.rb.Servers() {
		got = append(got, keyOf(su))
	}
	sort.Strings(got)
	var want []string
	for _, mm := range w.model.m {
		want = append(want, mm.key)
	}
	sort.Strings(want)
	if fmt.Sprint(got) != fmt.Sprint(want) {
		w.fail("overlap-membership", "%s while a request was being served: both have returned and the pool is %v, configured %v", what, got, want)
	}
	eff := w.snapshot()
	w.checkRange(eff, "after "+what+" overlapping a request")
	configured := map[string]int{}
	same := true
	for _, mm := range w.model.m {
		configured[mm.key] = mm.weight
		same = same && eff[mm.key] == mm.weight
	}
	w.note("%s overlapping a request -> effective %v", what, eff)
	w.lastAdjust = -1
	if !same {
		// the adjustment of the overlapped request came after the change, and started from the configured weights
		w.lastAdjust = w.now()
		if w.scripted {
			sb, se := sumW(configured), sumW(eff)
			for _, k := range w.clearCut() {
				l := new(big.Int).Mul(big.NewInt(int64(eff[k])), big.NewInt(sb))
				rr := new(big.Int).Mul(big.NewInt(int64(configured[k])), big.NewInt(se))
				if l.Cmp(rr) > 0 {
					w.fail("outlier-gained", "after %s overlapping a request, server %s rated %.2f (others <= 0.05) holds %d/%d of the traffic, configured %d/%d", what, k, w.rating[k], eff[k], se, configured[k], sb)
				}
			}
		}
	}
	w.eff = eff
	w.lastChange = w.now()
	w.outlierSince, w.firstMiss = -1, -1
	w.equalSince, w.equalChanges, w.equalReached = w.scripted && w.allEqualReady(), 0, false
	if w.equalSince && w.proportional(eff) {
		w.equalReached = true
	}
}

func (w *c10World) request(status func(key string) int) {
	r := w.r
	before := w.eff
	var bad []string
	if w.scripted { // with the real meter the ratings are not the harness's to know: universal invariants only
		bad = w.clearCut()
	}
	// is this request an opportunity to act on the outliers? The outlier set must have been standing for more
	// than one back-off (whatever timer an earlier, possibly invisible, adjustment armed has run out by then)
	// and a healthy server must be far below the cap.
	opportunity := false
	if set := fmt.Sprint(bad); w.scripted && bad != nil {
		if set != w.outlierSet || w.outlierSince < 0 {
			w.outlierSet, w.outlierSince, w.firstMiss = set, w.now(), -1
		}
		if w.now()-w.outlierSince > w.backoff {
			for _, m := range w.model.m {
				if !contains(bad, m.key) && m.weight > 0 && before[m.key] > 0 && before[m.key] <= 64 {
					opportunity = true
				}
			}
			for _, k := range bad {
				if before[k] <= 0 {
					opportunity = false
				}
			}
		}
	} else {
		w.outlierSince, w.firstMiss = -1, -1
	}
	rec := simkit.NewRecorder()
	req := (&http.Request{Method: "GET", URL: &url.URL{Path: "/"}, Header: http.Header{}, RemoteAddr: "10.0.0.1:1"}).WithContext(context.WithValue(context.Background(), ctxKey{}, status))
	w.r.Guard("request through the rebalancer", func() { w.rb.ServeHTTP(rec, req) })
	eff := w.snapshot()
	w.checkRange(eff, "after a request")
	if len(w.model.positive()) > 0 && rec.Status >= 500 && status != nil && !w.scripted {
		// real meter: backend errors are legitimate; nothing to check on the status
	}
	changed := !sameWeights(before, eff)
	if changed {
		w.adjustments++
		w.note("request -> rebalancer changed effective weights %v -> %v (ratings %v)", before, eff, w.rating)
		if w.lastAdjust >= 0 && w.now()-w.lastAdjust < w.backoff {
			w.fail("backoff", "the rebalancer changed weights at t=%v and again at t=%v, less than one back-off interval apart", w.lastAdjust, w.now())
		}
		w.lastAdjust = w.now()
		w.lastChange = w.now()
		if bad != nil {
			// direction: no outlier gains share
			sb, se := sumW(before), sumW(eff)
			for _, k := range bad {
				l := new(big.Int).Mul(big.NewInt(int64(eff[k])), big.NewInt(sb))
				rr := new(big.Int).Mul(big.NewInt(int64(before[k])), big.NewInt(se))
				if l.Cmp(rr) > 0 {
					w.fail("outlier-gained", "server %s rated %.2f (others <= 0.05) went from %d/%d to %d/%d of the traffic in an adjustment", k, w.rating[k], before[k], sb, eff[k], se)
				}
			}
		}
	}
	if opportunity {
		w.opportun++
		lost := changed
		if changed {
			sb, se := sumW(before), sumW(eff)
			for _, k := range bad {
				l := new(big.Int).Mul(big.NewInt(int64(eff[k])), big.NewInt(sb))
				rr := new(big.Int).Mul(big.NewInt(int64(before[k])), big.NewInt(se))
				if l.Cmp(rr) >= 0 {
					lost = false
				}
			}
		}
		switch {
		case lost:
			w.outlierSince, w.firstMiss = w.now(), -1
		case w.firstMiss < 0:
			w.firstMiss = w.now()
		case w.now()-w.firstMiss > w.backoff:
			w.fail("outlier-kept-share", "servers %v have been outliers since t=%v (rating >= 0.5, the others alike and <= 0.05, all meters ready, no administration call), a healthy server sits at effective weight <= 64, "+
				"requests completed at t=%v and now t=%v, each more than one back-off after the previous mark, and the outliers never lost share (effective %v)", bad, w.outlierSince, w.firstMiss, w.now(), eff)
		}
	} else if !opportunity && bad != nil && changed {
		// progress before it was due also counts
		lostAll := true
		sb, se := sumW(before), sumW(eff)
		for _, k := range bad {
			if int64(eff[k])*sb >= int64(before[k])*se {
				lostAll = false
			}
		}
		if lostAll {
			w.outlierSince, w.firstMiss = w.now(), -1
		}
	}
	// convergence while all ratings are equal
	if w.scripted {
		if w.equalSince {
			if changed {
				w.equalChanges++
			}
			prop := w.proportional(eff)
			if prop {
				w.equalReached = true
			} else if w.equalReached {
				w.fail("left-configured-proportions", "ratings are all equal, weights had returned to the configured proportions and then left them: %v", eff)
			} else if w.equalChanges >= 6 {
				w.fail("no-convergence", "ratings have been equal for %d adjustments and the effective weights %v are still not proportional to the configured ones", w.equalChanges, eff)
			}
		}
	}
	w.eff = eff
	_ = r
}

func c10prop(r *simkit.Run) {
	rt := r.T
	clock.Freeze(time.Unix(rapid.Int64Range(1_000_000_000, 4_400_000_000).Draw(rt, "epoch-s"), rapid.Int64Range(0, 999_999_999).Draw(rt, "epoch-ns")).UTC())
	defer clock.Unfreeze()
	w := &c10World{r: r, rating: map[string]float64{}, notReady: map[string]bool{}, errRate: map[string]int{}, lastAdjust: -1, outlierSince: -1, firstMiss: -1, start: clock.Now().UTC()}
	w.scripted = rapid.IntRange(0, 3).Draw(rt, "meter") != 0
	w.jitter = w.scripted && rapid.IntRange(0, 2).Draw(rt, "rating-jitter") == 0
	switch rapid.IntRange(0, 3).Draw(rt, "backoff-scale") {
	case 0:
		w.backoff = time.Duration(rapid.IntRange(1, 100).Draw(rt, "backoff-ms")) * time.Millisecond
	case 1, 2:
		w.backoff = time.Duration(rapid.IntRange(1, 15).Draw(rt, "backoff-s")) * time.Second
	default:
		w.backoff = time.Minute
	}
	seq := 0
	next := http.HandlerFunc(func(rw http.ResponseWriter, req *http.Request) {
		k := keyOf(req.URL)
		st := http.StatusOK
		if !w.scripted {
			seq++
			if (seq*37)%100 < w.errRate[k] {
				st = http.StatusBadGateway
			}
		}
		rw.WriteHeader(st)
	})
	rr, err := roundrobin.New(next)
	if err != nil {
		rt.Fatalf("rr: %v", err)
	}
	w.rr = rr
	opts := []roundrobin.RebalancerOption{roundrobin.RebalancerBackoff(w.backoff)}
	if w.scripted {
		opts = append(opts, roundrobin.RebalancerMeter(func() (roundrobin.Meter, error) { return &scriptMeter{w: w, key: w.pending}, nil }))
	}
	// by draw the balancer beneath the rebalancer is one that can refuse a removal for the moment (a balancer kept in
	// step with a remote registry, say): the refusal changes nothing beneath, and must change nothing above
	var under roundrobin.BalancerHandler = rr
	if rapid.IntRange(0, 3).Draw(rt, "balancer-beneath-can-refuse") == 0 {
		w.flaky = &flakyBalancer{RoundRobin: rr}
		under = w.flaky
	}
	rb, err := roundrobin.NewRebalancer(under, opts...)
	if err != nil {
		rt.Fatalf("rebalancer: %v", err)
	}
	w.rb = rb

	upsert := func(s string, hasW bool, wt int) {
		u := mustURL(s)
		w.pending = keyOf(u)
		var err error
		if hasW {
			err = rb.UpsertServer(u, roundrobin.Weight(wt))
		} else {
			err = rb.UpsertServer(u)
		}
		if err != nil {
			w.fail("upsert-failed", "UpsertServer(%s): %v", s, err)
		}
		before := w.model.encode()
		w.model.upsert(u, hasW, wt)
		w.afterAdmin(fmt.Sprintf("upsert %s w=%v/%d", s, hasW, wt), before != w.model.encode())
	}
	servers := []string{"http://a", "http://b", "http://c", "http://d", "http://e", "http://f"}
	n := rapid.IntRange(2, 6).Draw(rt, "servers")
	drawWeight := func() int {
		switch rapid.IntRange(0, 5).Draw(rt, "w-kind") {
		case 0:
			return 1
		case 1:
			return rapid.IntRange(1, 10).Draw(rt, "w-small")
		case 2:
			return rapid.IntRange(10, 300).Draw(rt, "w-mid")
		case 3:
			return rapid.SampledFrom([]int{1024, 1025, 4095, 4096, 4097, 5000}).Draw(rt, "w-edge")
		default:
			return rapid.IntRange(1, 5000).Draw(rt, "w-any")
		}
	}
	for i := 0; i < n; i++ {
		upsert(servers[i], true, drawWeight())
	}
	setRatings := func() {
		pat := rapid.SampledFrom([]string{"healthy", "one-bad", "minority-bad", "majority-bad", "all-bad", "random", "flap", "not-ready", "recover"}).Draw(rt, "ratings")
		keys := []string{}
		for _, m := range w.model.m {
			keys = append(keys, m.key)
		}
		if len(keys) == 0 {
			return
		}
		for _, k := range keys {
			w.notReady[k] = false
		}
		switch pat {
		case "healthy", "recover":
			for _, k := range keys {
				w.rating[k] = 0
			}
		case "one-bad":
			g := rapid.SampledFrom([]float64{0, 0, 0.01, 0.05}).Draw(rt, "good-rating")
			for _, k := range keys {
				w.rating[k] = g
				if rapid.IntRange(0, 9).Draw(rt, "uneven") == 0 {
					w.rating[k] = 0.02
				}
			}
			w.rating[keys[rapid.IntRange(0, len(keys)-1).Draw(rt, "bad")]] = rapid.SampledFrom([]float64{0.5, 0.8, 1}).Draw(rt, "bad-rating")
		case "minority-bad":
			for i, k := range keys {
				if 2*(i+1) < len(keys) {
					w.rating[k] = rapid.SampledFrom([]float64{0.5, 0.7, 1}).Draw(rt, "bad-rating")
				} else {
					w.rating[k] = 0
				}
			}
		case "majority-bad":
			for i, k := range keys {
				if i == 0 {
					w.rating[k] = 0
				} else {
					w.rating[k] = rapid.SampledFrom([]float64{0.5, 0.9}).Draw(rt, "bad-rating")
				}
			}
		case "all-bad":
			v := rapid.SampledFrom([]float64{0.3, 0.9, 1}).Draw(rt, "all-rating")
			for _, k := range keys {
				w.rating[k] = v
			}
		case "random":
			for _, k := range keys {
				w.rating[k] = float64(rapid.IntRange(0, 100).Draw(rt, "rating-pct")) / 100
			}
		case "flap":
			k := keys[rapid.IntRange(0, len(keys)-1).Draw(rt, "flapper")]
			if w.rating[k] >= 0.5 {
				w.rating[k] = 0
			} else {
				w.rating[k] = 1
			}
		case "not-ready":
			w.notReady[keys[rapid.IntRange(0, len(keys)-1).Draw(rt, "who-not-ready")]] = true
		}
		if !w.scripted {
			for _, k := range keys {
				w.errRate[k] = int(w.rating[k] * 100)
			}
		}
		w.note("ratings %s -> %v notReady %v", pat, w.rating, w.notReady)
		w.outlierSince, w.firstMiss = -1, -1
		w.equalSince, w.equalChanges, w.equalReached = w.scripted && w.allEqualReady(), 0, false
		if w.equalSince && w.proportional(w.eff) {
			w.equalReached = true
		}
	}
	// the operation mix is drawn per run: "episodes" are long quiet stretches (an outlier appears, is pushed
	// down over many back-off intervals, recovers, weights converge back) with little else going on
	opMix := []string{"req", "req", "req", "req", "req+backoff", "req+backoff", "advance", "ratings", "ratings", "admin"}
	if rapid.IntRange(0, 2).Draw(rt, "administration-overlaps-requests") == 0 {
		opMix = append(opMix, "overlap", "overlap+backoff")
	}
	if rapid.IntRange(0, 2).Draw(rt, "episodes") == 0 {
		opMix = []string{"req+backoff", "req+backoff", "req+backoff", "req+backoff", "req+backoff", "req+backoff", "req+backoff", "req", "req", "req", "advance", "ratings"}
		r.Probe("episode-run")
	}
	nops := rapid.IntRange(10, deep(200, 800)).Draw(rt, "ops")
	for i := 0; i < nops; i++ {
		switch op := rapid.SampledFrom(opMix).Draw(rt, "op"); op {
		case "req":
			w.request(nil)
		case "req+backoff":
			d := w.backoff + time.Duration(rapid.IntRange(-1, 2).Draw(rt, "off"))
			clock.Advance(d)
			r.SimTime(d)
			w.request(nil)
		case "overlap", "overlap+backoff":
			if len(w.model.m) >= 2 {
				if op == "overlap+backoff" {
					clock.Advance(w.backoff + 1)
					r.SimTime(w.backoff + 1)
				}
				w.overlap(w.model.m[rapid.IntRange(0, len(w.model.m)-1).Draw(rt, "which")], rapid.Bool().Draw(rt, "overlap-removes"), drawWeight())
			}
		case "advance":
			var d time.Duration
			switch rapid.IntRange(0, 3).Draw(rt, "adv") {
			case 0:
				d = time.Duration(rapid.Int64Range(1, int64(w.backoff)).Draw(rt, "adv-frac"))
			case 1:
				d = time.Duration(rapid.IntRange(1, 2000).Draw(rt, "adv-ms")) * time.Millisecond
			case 2:
				d = time.Duration(rapid.IntRange(1, 30).Draw(rt, "adv-s")) * time.Second
			default:
				d = w.backoff * time.Duration(rapid.IntRange(2, 10).Draw(rt, "adv-mul"))
			}
			clock.Advance(d)
			r.SimTime(d)
		case "ratings":
			setRatings()
		case "admin":
			switch rapid.IntRange(0, 4).Draw(rt, "admin") {
			case 0: // re-weight an existing server (possibly to 0)
				if len(w.model.m) > 0 {
					m := w.model.m[rapid.IntRange(0, len(w.model.m)-1).Draw(rt, "which")]
					wt := drawWeight()
					if rapid.IntRange(0, 5).Draw(rt, "zero") == 0 {
						wt = 0
					}
					upsert(m.str, true, wt)
				}
			case 1: // add
				s := servers[rapid.IntRange(0, len(servers)-1).Draw(rt, "add")]
				if w.model.find(keyOf(mustURL(s))) < 0 {
					// a new server starts with a clean rating; set it before the add so that the bookkeeping done
					// right after the administration call (are all ratings equal?) sees the ratings as they now are
					w.rating[keyOf(mustURL(s))] = 0
					w.notReady[keyOf(mustURL(s))] = false
					upsert(s, true, drawWeight())
				}
			case 2: // remove
				if len(w.model.m) > 1 {
					m := w.model.m[rapid.IntRange(0, len(w.model.m)-1).Draw(rt, "which")]
					if w.flaky != nil && rapid.IntRange(0, 2).Draw(rt, "removal-refused-beneath") == 0 {
						// the balancer beneath refuses: the call must fail, the member stays, and since nothing changed
						// the weights are either left alone or restored (as for any call that changes nothing)
						w.flaky.refuseNextRemoval = true
						w.refusals++
						if err := rb.RemoveServer(mustURL(m.str)); err == nil {
							w.fail("refused-removal-accepted", "RemoveServer(%s) returned no error although the balancer beneath refused", m.str)
						}
						w.flaky.refuseNextRemoval = false
						w.afterAdmin("remove "+m.str+" (refused beneath)", false)
						break
					}
					if err := rb.RemoveServer(mustURL(m.str)); err != nil {
						w.fail("remove-failed", "RemoveServer(%s): %v", m.str, err)
					}
					w.model.remove(mustURL(m.str))
					delete(w.rating, m.key)
					delete(w.notReady, m.key)
					w.afterAdmin("remove "+m.str, true)
				}
			case 3: // an update the balancer refuses (negative weight): must fail and change nothing
				if len(w.model.m) > 0 {
					m := w.model.m[rapid.IntRange(0, len(w.model.m)-1).Draw(rt, "which")]
					w.pending = m.key
					if err := rb.UpsertServer(mustURL(m.str), roundrobin.Weight(-1)); err == nil {
						w.fail("refused-update-accepted", "UpsertServer(%s, Weight(-1)) returned no error", m.str)
					}
					eff := w.snapshot()
					if !sameWeights(eff, w.eff) {
						w.fail("refused-update-changed-weights", "UpsertServer(%s, Weight(-1)) failed but the effective weights went %v -> %v", m.str, w.eff, eff)
					}
					w.note("refused upsert %s w=-1", m.str)
				}
			default: // upsert without options: no change expected, but it counts as an admin call
				if len(w.model.m) > 0 {
					m := w.model.m[rapid.IntRange(0, len(w.model.m)-1).Draw(rt, "which")]
					upsert(m.str, false, 0)
				}
			}
		}
	}
	h := simkit.NewHash()
	for _, s := range w.trace {
		h.Str(s)
	}
	h.Int(int64(w.adjustments))
	r.SetDigest(uint64(h))
	if w.adjustments >= 1 {
		r.Nontrivial()
	}
	r.ProbeN("adjustments", w.adjustments)
	r.ProbeN("outlier-opportunities", w.opportun)
	r.ProbeN("weight-at-cap", w.capHits)
	r.ProbeN("removal-refused-by-the-balancer-beneath", w.refusals)
	r.ProbeN("administration-call-overlapping-a-request", w.overlaps)
	if w.equalReached && w.equalChanges > 0 {
		r.Probe("converged-after-adjustments")
	}
	if w.scripted {
		r.Probe("scripted-meter")
	} else {
		r.Probe("real-meter")
	}
	r.Sample(func() any {
		return map[string]any{"backoff": w.backoff.String(), "scripted_meter": w.scripted, "configured": w.model.encode(), "adjustments": w.adjustments, "history": w.trace}
	})
}
