package rrsim

import (
	"fmt"
	"net/http"
	"strings"
	"testing"
	"time"

	"github.com/anishathalye/porcupine"
	"github.com/vulcand/oxy/v2/zzverif/simkit"
	"pgregory.net/rapid"
)

func TestC02(t *testing.T) {
	simkit.Main(t, "C02", components, func(r *simkit.Run) { c02prop(r) })
}

// applyModel applies a finished admin op to the reference model (coarse mode,
// where operations are atomic) and checks its result.
func (w *rrWorld) applyCoarse(op *rrOp, where string) {
	r := w.r
	switch op.kind {
	case "upsert":
		if op.err != (op.hasW && op.w < 0) {
			r.Fail("upsert-result", "%s: UpsertServer(%s, weight %d given=%v) returned error=%v", where, op.key, op.w, op.hasW, op.err)
		}
	case "remove":
	case "next", "serve":
		pos := w.model.positive()
		if op.kind == "serve" && w.listener && op.invoked && op.listened != 1 {
			r.Fail("rewrite-listener", "%s: the request was forwarded and the configured request-rewrite listener was told %d times", where, op.listened)
		}
		if op.sticky && !op.err {
			if w.model.find(op.outKey) < 0 {
				r.Fail("routed-outside-pool", "%s: request with affinity cookie handed to %s, members %s", where, op.outKey, w.model.encode())
			}
			return
		}
		if len(pos) == 0 {
			if !op.err {
				r.Fail("selection-from-unservable-pool", "%s: %s selected %s although no member has positive weight (%s)", where, op.kind, op.outKey, w.model.encode())
			}
			if op.kind == "serve" && (op.invoked || op.status < 500) {
				r.Fail("no-error-response", "%s: empty/all-zero pool: handler invoked=%v status=%d", where, op.invoked, op.status)
			}
			if op.kind == "serve" && w.ownErrHandler && op.ownMarks != 1 {
				r.Fail("error-handler-bypassed", "%s: empty/all-zero pool (status %d): the configured error handler answered %d times", where, op.status, op.ownMarks)
			}
			return
		}
		if op.err {
			r.Fail("spurious-error", "%s: %s failed (status %d) although members %v have positive weight", where, op.kind, op.status, pos)
		}
		if !contains(pos, op.outKey) {
			r.Fail("routed-outside-pool", "%s: %s selected %s, positive-weight members are %v (model %s)", where, op.kind, op.outKey, pos, w.model.encode())
		}
		if op.kind == "serve" && op.status != http.StatusOK {
			r.Fail("client-request-altered", "%s: status %d (-1 = the client's request URL was modified)", where, op.status)
		}
	}
}

func c02prop(r *simkit.Run) *rrWorld {
	rt := r.T
	viaRB := rapid.Bool().Draw(rt, "via-rebalancer")
	sticky := rapid.IntRange(0, 2).Draw(rt, "sticky") == 0
	fine := rapid.Bool().Draw(rt, "fine")
	w := newRRWorld(r, viaRB, sticky, fine)
	defer w.sim.Shutdown()
	nURL := rapid.IntRange(2, len(urlUniverse)).Draw(rt, "universe")
	nops := rapid.IntRange(3, 40).Draw(rt, "ops")
	if fine && nops > 28 {
		nops = 28
	}
	pick := func() string { return urlUniverse[rapid.IntRange(0, nURL-1).Draw(rt, "url")] }
	var pending []*rrOp // fine mode: spawned, not finished
	// rotation check: a freshly added positive-weight server must be selected within one full rotation
	var fresh string
	var freshLeft int
	removals, reAdds, overlapAdmin := 0, 0, 0
	removed := map[string]bool{}

	startOp := func() *rrOp {
		kinds := []string{"upsert", "upsert", "upsert-w", "upsert-w", "upsert-bad", "upsert-partly-bad", "upsert-meter-fails", "remove", "remove", "next", "next", "serve", "serve", "serve-mut", "servers", "weight"}
		if sticky {
			kinds = append(kinds, "serve-sticky", "serve-sticky", "serve-sticky-mut")
		}
		k := rapid.SampledFrom(kinds).Draw(rt, "op")
		w.sim.NoteStr("op", k)
		switch k {
		case "upsert":
			u := mustURL(pick())
			return w.opUpsert(u, false, 0)
		case "upsert-w":
			u := mustURL(pick())
			wt := rapid.IntRange(0, 5).Draw(rt, "weight")
			if wt == 0 && w.model.find(keyOf(u)) < 0 {
				wt = 1 // a new server with explicit weight 0: the statement is silent, not generated
			}
			if fine && wt == 0 {
				wt = 1 // in fine mode "is it new?" depends on the interleaving; keep the op unambiguous
			}
			return w.opUpsert(u, true, wt)
		case "upsert-meter-fails":
			// through the rebalancer, adding a new server whose meter cannot be built must fail and leave no trace
			u := mustURL(pick())
			if fine || !viaRB || w.model.find(keyOf(u)) >= 0 {
				return w.opUpsert(u, false, 0)
			}
			w.failMeter = true
			op := w.opUpsert(u, true, -99) // marked as "must fail, must change nothing" (see applyCoarse)
			op.hasW, op.w = true, -99
			return op
		case "upsert-partly-bad":
			if fine {
				return w.opUpsert(mustURL(pick()), true, -1) // the partial effect is only reconciled in coarse mode
			}
			return w.opUpsertPartlyBad(mustURL(pick()), rapid.IntRange(1, 5).Draw(rt, "weight"))
		case "upsert-bad":
			// an update the balancer must refuse (negative weight): it has to fail and change nothing
			return w.opUpsert(mustURL(pick()), true, -rapid.IntRange(1, 3).Draw(rt, "neg-weight"))
		case "remove":
			return w.opRemove(mustURL(pick()))
		case "next":
			return w.opNext()
		case "serve":
			return w.opServe(0, "")
		case "serve-mut":
			return w.opServe(rapid.IntRange(1, 6).Draw(rt, "mutation"), "")
		case "serve-sticky", "serve-sticky-mut":
			mut := 0
			if k == "serve-sticky-mut" {
				mut = rapid.IntRange(1, 6).Draw(rt, "mutation")
			}
			c := pick()
			op := w.opServe(mut, c)
			if !fine && w.model.find(keyOf(mustURL(c))) < 0 {
				op.sticky = false // the cookie names no member: this request is balanced like any other
			}
			return op
		case "servers":
			return w.opServers()
		default:
			return w.opWeight(mustURL(pick()))
		}
	}

	for i := 0; i < nops; i++ {
		if !fine {
			op := startOp()
			where := fmt.Sprintf("op %d (%s %s)", i, op.kind, op.key)
			before := w.model.encode()
			w.sim.RunTask(op.task)
			w.check()
			if !op.done {
				r.Fail("no-return", "%s did not return", where)
			}
			if op.kind == "upsert-partly-bad" {
				w.adoptAfterPartlyBad(op)
			}
			w.applyAdminToModel(op)
			w.applyCoarse(op, where)
			if op.kind == "remove" {
				wantErr := !strings.Contains(before, op.key+"=")
				if op.err != wantErr {
					r.Fail("remove-result", "%s: returned error=%v, server was member=%v (model before: %s)", where, op.err, !wantErr, before)
				}
				if !op.err {
					removals++
					removed[op.key] = true
				}
			}
			if op.kind == "upsert" && removed[op.key] {
				reAdds++
				delete(removed, op.key)
			}
			// rotation bookkeeping
			switch op.kind {
			case "upsert-partly-bad":
				fresh = "" // the weights may have changed: the rotation length is no longer the one computed at the add
			case "upsert", "remove":
				fresh = ""
				if op.kind == "upsert" && !strings.Contains(before, op.key+"=") {
					if i := w.model.find(op.key); i >= 0 && w.model.m[i].weight > 0 {
						fresh = op.key
						g, sum := 0, 0
						for _, m := range w.model.m {
							g = gcd(g, m.weight)
							sum += m.weight
						}
						freshLeft = sum / g
					}
				}
			case "next", "serve":
				if fresh != "" && !op.sticky {
					if op.outKey == fresh {
						fresh = ""
					} else if freshLeft--; freshLeft == 0 {
						r.Fail("added-server-starved", "server %s added with positive weight was not selected within one full rotation (model %s)", fresh, w.model.encode())
					}
				}
			}
			w.verifyQuiescent(where)
			continue
		}
		// fine mode: start operations and interleave their steps
		choice := rapid.IntRange(0, 2).Draw(rt, "start-or-step")
		if choice == 0 || len(w.sim.Runnable()) == 0 {
			pending = append(pending, startOp())
			admins := 0
			for _, p := range pending {
				if !p.done && (p.kind == "upsert" || p.kind == "remove") {
					admins++
				}
			}
			if admins >= 2 {
				overlapAdmin++
			}
		} else {
			n := rapid.IntRange(1, 12).Draw(rt, "steps")
			for k := 0; k < n && w.sim.StepChosen(); k++ {
				w.check()
			}
		}
	}
	w.sim.Quiesce()
	w.check()
	for _, op := range w.ops {
		if !op.done {
			r.Fail("no-return", "%s %s did not return", op.kind, op.key)
		}
	}
	if fine {
		w.checkHistory()
		// at quiescence the strong equalities hold again: rebuild the model from some linearization is not needed,
		// the balancer must agree with itself and nothing may be altered
		got := map[string]bool{}
		for _, u := range w.admin().Servers() {
			if got[keyOf(u)] {
				r.Fail("duplicate-member", "Servers() lists %s twice", keyOf(u))
			}
			got[keyOf(u)] = true
		}
	}
	r.FromSim(w.sim)
	if (removals >= 1 && len(w.ops) >= 4) || (fine && w.sim.Switches > 2) {
		r.Nontrivial()
	}
	r.ProbeN("removals", removals)
	r.ProbeN("re-add-after-remove", reAdds)
	r.ProbeN("handler-rewrote-url", w.mutations)
	r.ProbeN("admin-calls-overlapping", overlapAdmin)
	if viaRB {
		r.Probe("via-rebalancer")
	}
	if sticky {
		r.Probe("sticky-enabled")
	}
	if fine {
		r.Probe("fine-mode-run")
	}
	r.Sample(func() any {
		var os []string
		for _, op := range w.ops {
			os = append(os, fmt.Sprintf("%s(%s w=%v/%d)->err=%v sel=%s", op.kind, op.key, op.hasW, op.w, op.err, op.outKey))
		}
		return map[string]any{"via_rebalancer": viaRB, "sticky": sticky, "fine": fine, "ops": os}
	})
	return w
}

// applyAdminToModel updates the reference pool for a finished upsert/remove.
func (w *rrWorld) applyAdminToModel(op *rrOp) {
	switch op.kind {
	case "upsert":
		if op.err {
			return
		}
		w.model.upsert(op.url(), op.hasW, op.w)
	case "remove":
		if !op.err {
			w.model.remove(op.url())
		}
	}
}

type c02in struct {
	kind string
	key  string
	hasW bool
	w    int
}

type c02out struct {
	err    bool
	key    string
	keys   string
	w      int
	ok     bool
	sticky bool
}

// checkHistory: fine mode. The recorded invoke/return history must be
// linearizable against the set model.
func (w *rrWorld) checkHistory() {
	r := w.r
	var ops []porcupine.Operation
	for i, op := range w.ops {
		out := c02out{err: op.err, key: op.outKey, w: op.outW, ok: op.outOK, sticky: op.sticky}
		if op.kind == "servers" {
			ks := map[string]bool{}
			for _, k := range op.outKeys {
				ks[k[:strings.Index(k, "#")]] = true
			}
			var l []string
			for k := range ks {
				l = append(l, k)
			}
			sortStrings(l)
			out.keys = strings.Join(l, ";")
		}
		ops = append(ops, porcupine.Operation{ClientId: i, Input: c02in{op.kind, op.key, op.hasW, op.w}, Call: int64(2 * op.call), Output: out, Return: int64(2*op.ret + 1)})
	}
	model := porcupine.Model{
		Init: func() interface{} { return "" },
		Step: func(state, input, output interface{}) (bool, interface{}) {
			st := decodePool(state.(string))
			in, out := input.(c02in), output.(c02out)
			enc := func() string {
				p := pool{}
				for k, v := range st {
					p.m = append(p.m, member{k, "", v})
				}
				return p.encode()
			}
			switch in.kind {
			case "upsert":
				if in.hasW && in.w < 0 {
					return out.err, state // refused, nothing changes
				}
				if out.err {
					return false, state
				}
				if _, ok := st[in.key]; ok {
					if in.hasW {
						st[in.key] = in.w
					}
				} else if in.hasW && in.w > 0 {
					st[in.key] = in.w
				} else {
					st[in.key] = 1
				}
				return true, enc()
			case "remove":
				_, ok := st[in.key]
				if out.err {
					return !ok, state
				}
				if !ok {
					return false, state
				}
				delete(st, in.key)
				return true, enc()
			case "next", "serve":
				pos := 0
				for _, v := range st {
					if v > 0 {
						pos++
					}
				}
				if out.sticky && !out.err {
					_, ok := st[out.key]
					return ok, state
				}
				if out.err {
					return pos == 0, state
				}
				return st[out.key] > 0, state
			case "servers":
				var l []string
				for k := range st {
					l = append(l, k)
				}
				sortStrings(l)
				return strings.Join(l, ";") == out.keys, state
			case "weight":
				v, ok := st[in.key]
				if !ok {
					return !out.ok, state
				}
				return out.ok && out.w == v, state
			}
			return false, state
		},
		Equal: func(a, b interface{}) bool { return a.(string) == b.(string) },
	}
	switch porcupine.CheckOperationsTimeout(model, ops, 20*time.Second) {
	case porcupine.Illegal:
		var os []string
		for _, op := range w.ops {
			os = append(os, fmt.Sprintf("[%d,%d] %s(%s w=%v/%d)->err=%v sel=%s keys=%v", op.call, op.ret, op.kind, op.key, op.hasW, op.w, op.err, op.outKey, op.outKeys))
		}
		r.Fail("history-not-linearizable", "no order of the %d operations consistent with real time explains the results against the pool-as-a-set model: %v", len(ops), os)
	case porcupine.Unknown:
		r.Inconclusive()
	}
}

func sortStrings(l []string) {
	for i := 1; i < len(l); i++ {
		for j := i; j > 0 && l[j] < l[j-1]; j-- {
			l[j], l[j-1] = l[j-1], l[j]
		}
	}
}
