package limsim

import (
	"errors"
	"fmt"
	"math/big"
	"net/http"
	"strconv"
	"time"

	"github.com/vulcand/oxy/v2/internal/holsterv4/clock"
	"github.com/vulcand/oxy/v2/ratelimit"
	"github.com/vulcand/oxy/v2/utils"
	"github.com/vulcand/oxy/v2/zzverif/simkit"
	"github.com/vulcand/oxy/v2/zzverif/simrt"
	"pgregory.net/rapid"
)

type rateSpec struct {
	period  time.Duration
	average int64
	burst   int64
}

func (r rateSpec) String() string { return fmt.Sprintf("%d/%v burst %d", r.average, r.period, r.burst) }

// perToken is the statement's "period/average": a duration divided by a count.
func (r rateSpec) perToken() time.Duration { return r.period / time.Duration(r.average) }

type tlim struct {
	// onWarn, when set, runs while the limiter is inside a Warn call of its logger (it logs a refusal after it
	// has decided it and before it answers): whatever other traffic the harness wants to land in that window
	onWarn  func()
	inWarn  bool
	lossy   bool // built with a logger whose sink may break: such a request is reported as lost, not as a crash
	lim     *ratelimit.TokenLimiter
	handled int
	h       http.Handler
	served  int
}

// rewrapEvery > 0: the chain is re-assembled around the limiter (Wrap with the same handler) before every n-th
// request; quotas are unaffected by that
var rewrapEvery int

type tlResult struct {
	status   int
	handled  bool
	retryIn  time.Duration
	hasRetry bool
	retryHdr string
	ownMarks int  // how often the caller's error handler answered (when one is configured)
	lost     bool // the caller's log sink broke in the course of this request: it unwound with that panic, unanswered
}

func (a tlResult) same(b tlResult) bool {
	return a.status == b.status && a.handled == b.handled && a.retryIn == b.retryIn && a.hasRetry == b.hasRetry
}

var srcExtractor = utils.ExtractorFunc(func(req *http.Request) (string, int64, error) {
	n, err := strconv.ParseInt(req.Header.Get("Amount"), 10, 64)
	if err != nil {
		return "", 0, err
	}
	return req.Header.Get("Src"), n, nil
})

// viaExtractor: per run, the rates reach the limiter either as its default set or through a
// per-request RateExtractor that returns an equal set every time (so the "update existing buckets"
// path runs on every access without the configuration ever changing)
var viaExtractor bool

// guardRun is the current run (set by freeze): panics of the limiter become violations
var guardRun *simkit.Run

// rateOverride, when set while a limiter is built, is the caller's rate extractor: it returns the rates in force,
// an empty set, or an error (in the last two cases the limiter's default rates apply)
var rateOverride func() ([]rateSpec, error)

// perSourceRates, when set while a limiter is built, gives individual sources their own rate set through the extractor
var perSourceRates map[string][]rateSpec

var slowRateLogger bool

// brokenSink, when set, is the logger of the next limiter built: its sink breaks once (simkit.FaultyLogger)
var brokenSink *simkit.FaultyLogger

// overlapLogger: the limiter's logger is one during whose Warn calls other requests arrive (tlim.onWarn)
var overlapLogger bool

type windowLogger struct{ l *tlim }

func (g windowLogger) Debug(f string, a ...interface{}) { _ = fmt.Sprintf(f, a...) }
func (g windowLogger) Info(f string, a ...interface{})  { _ = fmt.Sprintf(f, a...) }
func (g windowLogger) Error(f string, a ...interface{}) { _ = fmt.Sprintf(f, a...) }
func (g windowLogger) Warn(f string, a ...interface{}) {
	_ = fmt.Sprintf(f, a...)
	if g.l.onWarn != nil && !g.l.inWarn {
		g.l.inWarn = true
		defer func() { g.l.inWarn = false }()
		g.l.onWarn()
	}
}

// ownErrHandler: the limiter is built with a caller-supplied error handler
var ownErrHandler bool

func drawRateSource(rt *rapid.T) {
	viaExtractor = rapid.Bool().Draw(rt, "rates-via-extractor")
	slowRateLogger = rapid.IntRange(0, 2).Draw(rt, "slow-logger") == 0
	ownErrHandler = rapid.IntRange(0, 2).Draw(rt, "own-error-handler") == 0
	rewrapEvery = rapid.SampledFrom([]int{0, 0, 3, 7}).Draw(rt, "rewrap-every")
}

func newTLim(rt *rapid.T, rates []rateSpec, capacity int) *tlim {
	mk := func() *ratelimit.RateSet {
		rs := ratelimit.NewRateSet()
		for _, r := range rates {
			if err := rs.Add(r.period, r.average, r.burst); err != nil {
				rt.Fatalf("rate set: %v", err)
			}
		}
		return rs
	}
	rs := mk()
	l := &tlim{}
	h := http.HandlerFunc(func(w http.ResponseWriter, req *http.Request) {
		l.handled++
		w.Header().Set("X-Handled", "1") // per request: several may be in flight at once
		w.WriteHeader(http.StatusOK)
	})
	l.h = h
	var opts []ratelimit.TokenLimiterOption
	if capacity > 0 {
		opts = append(opts, ratelimit.Capacity(capacity))
	}
	if slowRateLogger {
		opts = append(opts, ratelimit.Logger(simkit.SlowLogger{}))
	}
	if overlapLogger {
		opts = append(opts, ratelimit.Logger(windowLogger{l}))
	}
	if brokenSink != nil {
		opts = append(opts, ratelimit.Logger(*brokenSink))
		l.lossy = true
	}
	if ownErrHandler {
		// the caller's error handler: same mapping as the default one, so every oracle keeps its meaning, plus
		// a mark on the response that proves the configured handler (and not the default) answered, once
		opts = append(opts, ratelimit.ErrorHandler(utils.ErrorHandlerFunc(func(w http.ResponseWriter, req *http.Request, err error) {
			w.Header().Add("X-Own-Err-Handler", "1")
			var rerr *ratelimit.MaxRateError
			if errors.As(err, &rerr) {
				w.Header().Set("X-Retry-In", rerr.Delay.String())
				w.WriteHeader(http.StatusTooManyRequests)
				return
			}
			w.WriteHeader(http.StatusInternalServerError)
		})))
	}
	if rateOverride != nil {
		ro := rateOverride
		opts = append(opts, ratelimit.ExtractRates(ratelimit.RateExtractorFunc(func(req *http.Request) (*ratelimit.RateSet, error) {
			rr, err := ro()
			if err != nil {
				return nil, err
			}
			rs := ratelimit.NewRateSet() // may be empty: the limiter then falls back to its default rates
			for _, r := range rr {
				_ = rs.Add(r.period, r.average, r.burst)
			}
			return rs, nil
		})))
	} else if perSourceRates != nil {
		ps := perSourceRates
		def := rates
		opts = append(opts, ratelimit.ExtractRates(ratelimit.RateExtractorFunc(func(req *http.Request) (*ratelimit.RateSet, error) {
			rr, ok := ps[req.Header.Get("Src")]
			if !ok {
				rr = def
			}
			rs := ratelimit.NewRateSet()
			for _, r := range rr {
				_ = rs.Add(r.period, r.average, r.burst)
			}
			return rs, nil
		})))
	} else if viaExtractor {
		// the default set is deliberately different (and tiny): if the extractor's answer were ignored, the twins and bounds would notice
		rs = ratelimit.NewRateSet()
		_ = rs.Add(time.Hour, 1, 1)
		opts = append(opts, ratelimit.ExtractRates(ratelimit.RateExtractorFunc(func(*http.Request) (*ratelimit.RateSet, error) { return mk(), nil })))
	}
	lim, err := ratelimit.New(h, srcExtractor, rs, opts...)
	if err != nil {
		rt.Fatalf("ratelimit.New: %v", err)
	}
	l.lim = lim
	return l
}

func (l *tlim) do(src string, amount int64) tlResult {
	l.served++
	if rewrapEvery > 0 && l.served%rewrapEvery == 0 && (simrt.Active() == nil || simrt.Active().Current() == nil) {
		l.lim.Wrap(l.h)
	}
	req := newRequest(nil, src)
	req.Header.Set("Amount", strconv.FormatInt(amount, 10))
	rec := simkit.NewRecorder()
	lost := false
	if guardRun != nil && (simrt.Active() == nil || simrt.Active().Current() == nil) {
		guardRun.Guard("request through the rate limiter", func() {
			defer func() {
				if p := recover(); p != nil {
					if l.lossy && p == simkit.LogSinkBroken {
						lost = true
						return
					}
					panic(p)
				}
			}()
			l.lim.ServeHTTP(rec, req)
		})
		if lost {
			return tlResult{lost: true}
		}
	} else {
		l.lim.ServeHTTP(rec, req) // inside a task: the scheduler records the panic
	}
	res := tlResult{status: rec.Status, handled: rec.H.Get("X-Handled") != ""}
	res.ownMarks = len(rec.Snapshot.Values("X-Own-Err-Handler"))
	if v := rec.Snapshot.Get("X-Retry-In"); v != "" {
		res.retryHdr = v
		d, err := time.ParseDuration(v)
		if err == nil {
			res.retryIn, res.hasRetry = d, true
		}
	}
	return res
}

// classification of one answer of the limiter
const (
	ansAdmit  = "admit"
	ansReject = "reject"
	ansError  = "error"
	ansBad    = "malformed"
)

func (r tlResult) class() string {
	want := 0
	if ownErrHandler && !r.handled {
		want = 1 // a request that is not passed on is answered by the configured error handler, once
	}
	if r.ownMarks != want {
		return ansBad
	}
	switch {
	case r.status == http.StatusOK && r.handled && !r.hasRetry:
		return ansAdmit
	case r.status == http.StatusTooManyRequests && !r.handled && r.hasRetry && r.retryIn > 0:
		return ansReject
	case r.status >= 500 && !r.handled && !r.hasRetry:
		return ansError
	}
	return ansBad
}

// drawRates draws 1-3 rates with distinct periods. inDomain: periods >= 1s and
// burst <= 5 x average (the region the statement guarantees).
func drawRates(rt *rapid.T, inDomain bool, maxAvg int64) []rateSpec {
	periods := []time.Duration{time.Second, 1500 * time.Millisecond, 1900 * time.Millisecond, 1999 * time.Millisecond, 2 * time.Second, 10 * time.Second, time.Minute, time.Hour}
	if !inDomain {
		periods = append(periods, 100*time.Millisecond, 10*time.Millisecond)
	}
	// one configuration in six is a large one: quotas per day or month, averages and bursts up to billions
	large := rapid.IntRange(0, 5).Draw(rt, "large-magnitudes") == 0
	if large {
		periods = append(periods, 24*time.Hour, 30*24*time.Hour)
	}
	n := rapid.IntRange(1, 3).Draw(rt, "nrates")
	seen := map[time.Duration]bool{}
	var out []rateSpec
	for len(out) < n {
		p := rapid.SampledFrom(periods).Draw(rt, "period")
		if seen[p] {
			continue
		}
		seen[p] = true
		avg := int64(rapid.IntRange(1, int(maxAvg)).Draw(rt, "average"))
		if large {
			avg = int64(rapid.IntRange(1, 9).Draw(rt, "avg-digit"))
			for k := rapid.IntRange(3, 9).Draw(rt, "avg-exp"); k > 0; k-- {
				avg *= 10
			}
			if avg > int64(p) { // more than one token per nanosecond: the bucket cannot express it
				avg = int64(p)
			}
		}
		maxB := 5 * avg
		if !inDomain {
			maxB = 50 * avg
		}
		b := int64(rapid.IntRange(1, int(maxB)).Draw(rt, "burst"))
		out = append(out, rateSpec{p, avg, b})
	}
	return out
}

func minBurst(rates []rateSpec) int64 {
	m := rates[0].burst
	for _, r := range rates {
		if r.burst < m {
			m = r.burst
		}
	}
	return m
}

func maxPeriod(rates []rateSpec) time.Duration {
	m := rates[0].period
	for _, r := range rates {
		if r.period > m {
			m = r.period
		}
	}
	return m
}

// refillTime is max over rates of burst x (period/average)
func refillTime(rates []rateSpec) time.Duration {
	var m time.Duration
	for _, r := range rates {
		if d := time.Duration(r.burst) * r.perToken(); d > m {
			m = d
		}
	}
	return m
}

// drawStep draws a clock step from a mixture built around the configured durations.
func drawStep(rt *rapid.T, rates []rateSpec, label string) time.Duration {
	r := rates[rapid.IntRange(0, len(rates)-1).Draw(rt, label+"-rate")]
	tpt := r.perToken()
	switch rapid.IntRange(0, 14).Draw(rt, label+"-kind") {
	case 14:
		// just short of the time the whole burst needs to come back: a source that has been idle that long must
		// still be remembered (C03's guarantee), or it would come back to a full bucket too early
		rf := time.Duration(r.burst) * tpt
		return rf - time.Duration(rapid.Int64Range(0, int64(time.Second)).Draw(rt, label+"-short-of-refill"))
	case 0, 1, 2:
		return 0
	case 3:
		return 1
	case 4:
		return tpt - 1
	case 5:
		return tpt
	case 6:
		return tpt + 1
	case 7:
		return time.Duration(rapid.Int64Range(0, int64(tpt)*3).Draw(rt, label+"-sub"))
	case 8:
		return r.period
	case 9:
		return time.Duration(rapid.Int64Range(0, int64(r.period)).Draw(rt, label+"-inperiod"))
	case 10:
		return time.Duration(rapid.Int64Range(1, 12).Draw(rt, label+"-k")) * tpt
	case 11:
		return time.Duration(r.burst) * tpt
	case 12:
		// around the lifetime of an idle entry, whatever it exactly is: a few periods to a few tens of periods
		return time.Duration(rapid.Int64Range(int64(maxPeriod(rates))*8, int64(maxPeriod(rates))*12+int64(2*time.Second)).Draw(rt, label+"-life"))
	default:
		return time.Duration(rapid.Int64Range(int64(time.Hour), int64(100*24*time.Hour)).Draw(rt, label+"-long"))
	}
}

func drawEpoch(rt *rapid.T) time.Time {
	sec := rapid.Int64Range(1_000_000_000, 4_400_000_000).Draw(rt, "epoch-s")
	ns := rapid.Int64Range(0, 999_999_999).Draw(rt, "epoch-ns")
	return time.Unix(sec, ns).UTC()
}

// admitted request of one source
type admitEv struct {
	t      time.Duration // since epoch of the run
	amount int64
	regime int // which configuration was in force (dynamic-rates runs)
}

// checkBound verifies, for one source and one rate, that every interval
// [t_i, t_j] between two admitted requests satisfies
//
//	sum(amounts i..j) <= burst + (t_j - t_i)/(period/average) + 1
//
// in exact integer arithmetic (multiply through by the per-token interval).
func checkBound(evs []admitEv, r rateSpec) (bool, string) {
	tpt := big.NewInt(int64(r.perToken()))
	if tpt.Sign() == 0 {
		return true, ""
	}
	limit := new(big.Int).Mul(big.NewInt(r.burst+1), tpt) // (burst+1) * tpt
	// condition: tpt*(S_j - S_{i-1}) - (t_j - t_i) <= (burst+1)*tpt
	// <=> (tpt*S_j - t_j) - min_i (tpt*S_{i-1} - t_i) <= limit
	var minV *big.Int
	minIdx := 0
	prefix := big.NewInt(0)
	for j, e := range evs {
		v := new(big.Int).Mul(tpt, prefix) // tpt*S_{j-1}
		v.Sub(v, big.NewInt(int64(e.t)))
		if minV == nil || v.Cmp(minV) < 0 {
			minV, minIdx = v, j
		}
		prefix = new(big.Int).Add(prefix, big.NewInt(e.amount))
		cur := new(big.Int).Mul(tpt, prefix)
		cur.Sub(cur, big.NewInt(int64(e.t)))
		cur.Sub(cur, minV)
		if cur.Cmp(limit) > 0 {
			var sum int64
			for k := minIdx; k <= j; k++ {
				sum += evs[k].amount
			}
			T := e.t - evs[minIdx].t
			return false, fmt.Sprintf("rate %v: admitted %d units in [%v, %v] (T=%v, %d requests) > burst %d + T/(period/average) %d + 1",
				r, sum, evs[minIdx].t, e.t, T, j-minIdx+1, r.burst, int64(T/r.perToken()))
		}
	}
	return true, ""
}

func freeze(rt *rapid.T) (time.Time, func()) {
	t0 := drawEpoch(rt)
	clock.Freeze(t0)
	return t0, clock.Unfreeze
}
