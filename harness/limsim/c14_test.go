package limsim

import (
	"fmt"
	"net/http"
	"testing"
	"time"

	"github.com/vulcand/oxy/v2/connlimit"
	"github.com/vulcand/oxy/v2/internal/holsterv4/clock"
	"github.com/vulcand/oxy/v2/utils"
	"github.com/vulcand/oxy/v2/zzverif/simkit"
	"github.com/vulcand/oxy/v2/zzverif/simrt"
	"pgregory.net/rapid"
)

func TestC14(t *testing.T) {
	simkit.Main(t, "C14", components, func(r *simkit.Run) {
		only := simkit.Only()
		mode := rapid.SampledFrom([]string{"rate-projection", "rate-projection", "rate-eviction", "rate-eviction", "rate-eviction-lru", "rate-eviction-lru", "rate-eviction-hetero", "rate-eviction-ranked", "conn-twin", "conn-fine", "rate-broken-sink"}).Draw(r.T, "mode")
		if only != "" {
			mode = only
		}
		switch mode {
		case "rate-projection":
			c14projection(r)
		case "rate-eviction":
			c14eviction(r)
		case "rate-eviction-lru":
			c14evictionLRU(r)
		case "rate-eviction-hetero":
			c14evictionHetero(r)
		case "rate-eviction-ranked":
			c14evictionRanked(r)
		case "conn-twin":
			c14connTwin(r)
		case "rate-broken-sink":
			c14brokenSink(r)
		default:
			c04core(r, 2, true)
			r.Probe("conn-fine-partitioned-history")
		}
	})
}

// combined history on limiter A, each source's projection on its own limiter B_s
// at the same instants: answers must be identical.
func c14projection(r *simkit.Run) {
	rt := r.T
	guardRun = r
	drawSrcBase(r.T)
	rates := drawRates(rt, true, int64(rapid.SampledFrom([]int{3, 20, 300}).Draw(rt, "avg-scale")))
	drawRateSource(rt)
	nsrc := rapid.IntRange(2, 6).Draw(rt, "sources")
	capacity := nsrc + rapid.IntRange(0, 2).Draw(rt, "spare")
	_, unfreeze := freeze(rt)
	defer unfreeze()
	start := clock.Now()
	A := newTLim(rt, rates, capacity)
	B := make([]*tlim, nsrc)
	for i := range B {
		B[i] = newTLim(rt, rates, 1+rapid.IntRange(0, 1).Draw(rt, "twin-cap"))
	}
	mb := minBurst(rates)
	h := simkit.NewHash()
	var trace []string
	nops := rapid.IntRange(10, 250).Draw(rt, "ops")
	interleaved, rejected := 0, 0
	last := -1
	sim := simrt.New(r.Chooser())
	defer sim.Shutdown()
	sim.Fine = true
	concurrent := 0
	for i := 0; i < nops; i++ {
		if rapid.IntRange(0, 2).Draw(rt, "adv") == 0 {
			d := drawStep(rt, rates, "dt")
			clock.Advance(d)
			r.SimTime(d)
		}
		if rapid.IntRange(0, 9).Draw(rt, "concurrent") == 0 {
			// requests of DIFFERENT sources in flight at one instant on the shared limiter, interleaved at every lock
			// operation; each source's twin then sees its request alone: the answers must agree whatever the interleaving
			k := rapid.IntRange(2, nsrc).Draw(rt, "conc-k")
			srcs := rapid.Permutation(seq(nsrc)).Draw(rt, "conc-srcs")[:k]
			res := make([]tlResult, k)
			for j, s2 := range srcs {
				j, s2 := j, s2
				sim.Spawn(fmt.Sprintf("conc-s%d", s2), func() { res[j] = A.do(srcName(s2), 1) })
			}
			sim.Quiesce()
			if sim.Deadlocked() {
				r.Fail("deadlock", "concurrent requests on the rate limiter deadlocked")
			}
			for _, tk := range sim.Tasks() {
				if tk.Panic != nil {
					r.Fail("panic", "concurrent request panicked: %v\n%s", tk.Panic, tk.PanicSite)
				}
			}
			concurrent++
			for j, s2 := range srcs {
				rb := B[s2].do(srcName(s2), 1)
				h.Int(int64(s2))
				h.Int(int64(res[j].status))
				if !res[j].same(rb) {
					r.Tracef("trace: %v", trace)
					r.Fail("interference", "t=%v source s%d, one of %d sources arriving at once: shared limiter answered %d retry=%q, the same source alone answered %d retry=%q (rates %v)",
						clock.Now().Sub(start), s2, k, res[j].status, res[j].retryHdr, rb.status, rb.retryHdr, rates)
				}
			}
			continue
		}
		src := rapid.IntRange(0, nsrc-1).Draw(rt, "src")
		amount := int64(1)
		switch rapid.IntRange(0, 5).Draw(rt, "amt-kind") {
		case 0:
			amount = mb
		case 1:
			amount = int64(rapid.IntRange(1, int(mb)).Draw(rt, "amt"))
		case 2:
			amount = mb + 1
		}
		name := srcName(src)
		ra := A.do(name, amount)
		rb := B[src].do(name, amount)
		t := clock.Now().Sub(start)
		if len(trace) < 80 {
			trace = append(trace, fmt.Sprintf("t=%v s%d x%d -> %d %s", t, src, amount, ra.status, ra.retryHdr))
		}
		h.Int(int64(src))
		h.Int(int64(t))
		h.Int(amount)
		h.Int(int64(ra.status))
		if ra.class() == ansBad {
			r.Fail("malformed-answer", "status %d handled=%v retry=%q", ra.status, ra.handled, ra.retryHdr)
		}
		if !ra.same(rb) {
			r.Tracef("trace: %v", trace)
			r.Fail("interference", "t=%v source s%d amount %d: shared limiter (capacity %d, %d sources) answered %d retry=%q, the same source alone answered %d retry=%q (rates %v)",
				t, src, amount, capacity, nsrc, ra.status, ra.retryHdr, rb.status, rb.retryHdr, rates)
		}
		if last >= 0 && last != src {
			interleaved++
		}
		if ra.class() == ansReject {
			rejected++
		}
		last = src
	}
	r.SetDigest(uint64(h))
	if interleaved >= 2 && rejected >= 1 {
		r.Nontrivial()
	}
	r.Probe("rate-projection")
	r.ProbeN("concurrent-arrivals-of-different-sources", concurrent)
	r.Sample(func() any {
		return map[string]any{"mode": "rate-projection", "rates": fmt.Sprint(rates), "sources": nsrc, "capacity": capacity, "first_ops": trace}
	})
}

// more sources than capacity: after each insertion into a full limiter exactly
// the tracked source nearest to expiry (= oldest, by construction both in
// creation and in last-use order) starts afresh, nobody else changes.
func c14eviction(r *simkit.Run) {
	rt := r.T
	guardRun = r
	drawSrcBase(r.T)
	capacity := rapid.IntRange(1, 4).Draw(rt, "capacity")
	nsrc := capacity + rapid.IntRange(1, 2*capacity).Draw(rt, "extra-sources")
	// long periods: the whole scenario stays far below any entry lifetime
	var rates []rateSpec
	for _, p := range []time.Duration{time.Minute, time.Hour} {
		if len(rates) == 0 || rapid.Bool().Draw(rt, "second-rate") {
			avg := int64(rapid.IntRange(1, 4).Draw(rt, "average"))
			rates = append(rates, rateSpec{p, avg, int64(rapid.IntRange(1, int(5*avg)).Draw(rt, "burst"))})
		}
	}
	drawRateSource(rt)
	_, unfreeze := freeze(rt)
	defer unfreeze()
	start := clock.Now()
	A := newTLim(rt, rates, capacity)
	B := make([]*tlim, nsrc)
	for i := range B {
		B[i] = newTLim(rt, rates, 1)
	}
	var tracked []int // oldest first
	isTracked := func(s int) bool {
		for _, x := range tracked {
			if x == s {
				return true
			}
		}
		return false
	}
	var trace []string
	h := simkit.NewHash()
	evictions := 0
	step := func() {
		d := time.Second + time.Duration(rapid.Int64Range(0, int64(2*time.Second)).Draw(rt, "dt"))
		clock.Advance(d)
		r.SimTime(d)
	}
	access := func(s int, amount int64, what string) tlResult {
		name := srcName(s)
		ra := A.do(name, amount)
		rb := B[s].do(name, amount)
		t := clock.Now().Sub(start)
		if len(trace) < 100 {
			trace = append(trace, fmt.Sprintf("t=%v %s s%d x%d -> %d", t, what, s, amount, ra.status))
		}
		h.Int(int64(s))
		h.Int(int64(ra.status))
		if !ra.same(rb) {
			r.Tracef("trace: %v", trace)
			r.Fail("eviction", "t=%v %s of source s%d (amount %d): limiter of capacity %d answered %d retry=%q; expected (only the oldest tracked source forgotten on each insertion, tracked now %v) %d retry=%q (rates %v)",
				t, what, s, amount, capacity, ra.status, ra.retryHdr, tracked, rb.status, rb.retryHdr, rates)
		}
		return ra
	}
	drain := func(s int, what string) {
		for k := 0; k < 40; k++ {
			if access(s, 1, what).class() != ansAdmit {
				return
			}
		}
	}
	nops := rapid.IntRange(3, 40).Draw(rt, "ops")
	for i := 0; i < nops && clock.Now().Sub(start) < 5*time.Minute; i++ {
		switch rapid.SampledFrom([]string{"insert", "insert", "sweep", "newest-again"}).Draw(rt, "op") {
		case "insert":
			var cand []int
			for s := 0; s < nsrc; s++ {
				if !isTracked(s) {
					cand = append(cand, s)
				}
			}
			if len(cand) == 0 {
				continue
			}
			s := cand[rapid.IntRange(0, len(cand)-1).Draw(rt, "which")]
			step()
			if len(tracked) >= capacity {
				e := tracked[0]
				tracked = tracked[1:]
				B[e] = newTLim(rt, rates, 1) // the forgotten source starts afresh
				evictions++
			}
			tracked = append(tracked, s)
			drain(s, "insert")
		case "sweep":
			if len(tracked) == 0 {
				continue
			}
			from := rapid.IntRange(0, len(tracked)-1).Draw(rt, "from")
			for _, s := range append([]int(nil), tracked[from:]...) {
				step()
				access(s, 1, "sweep")
			}
		case "newest-again":
			if len(tracked) == 0 {
				continue
			}
			access(tracked[len(tracked)-1], 1, "newest-again")
		}
	}
	// final probe of everybody still tracked, oldest first
	for _, s := range append([]int(nil), tracked...) {
		step()
		access(s, 1, "final-sweep")
	}
	r.SetDigest(uint64(h))
	if evictions >= 1 {
		r.Nontrivial()
	}
	r.ProbeN("evictions", evictions)
	r.Probe("rate-eviction")
	r.Sample(func() any {
		return map[string]any{"mode": "rate-eviction", "rates": fmt.Sprint(rates), "sources": nsrc, "capacity": capacity, "evictions": evictions, "first_ops": trace}
	})
}

// connection limiter: every arrival/finish is applied to the shared limiter A
// and to a limiter B_s that only ever sees source s; admissions must agree.
func c14connTwin(r *simkit.Run) {
	rt := r.T
	guardRun = r
	drawSrcBase(r.T)
	nsrc := rapid.IntRange(2, 4).Draw(rt, "sources")
	limit := rapid.IntRange(0, 4).Draw(rt, "limit")
	sim := simrt.New(r.Chooser())
	defer sim.Shutdown()
	extract, _ := utils.NewExtractor("request.header." + rapid.SampledFrom([]string{"Src", "Src", "src", "SRC", "sRC"}).Draw(rt, "source-header-spelling"))
	type twinReq struct {
		src     int
		entered [2]bool
		tasks   [2]*simrt.Task
		recs    [2]*simkit.Recorder
	}
	mk := func(which int) *connlimit.ConnLimiter {
		h := http.HandlerFunc(func(w http.ResponseWriter, req *http.Request) {
			q := req.Context().Value(ctxKey{}).(*twinReq)
			q.entered[which] = true
			ins := sim.Park("handler").(instr)
			ins.leave()
			w.WriteHeader(ins.status)
		})
		cl, err := connlimit.New(h, extract, int64(limit))
		if err != nil {
			rt.Fatalf("connlimit.New: %v", err)
		}
		return cl
	}
	A := mk(0)
	B := make([]*connlimit.ConnLimiter, nsrc)
	for i := range B {
		B[i] = mk(1)
	}
	var inflight []*twinReq
	srcsInFlight := map[int]bool{}
	maxSrcOverlap := 0
	nops := rapid.IntRange(2, 60).Draw(rt, "ops")
	total := 0
	for i := 0; i < nops; i++ {
		if len(inflight) == 0 || (total < 40 && rapid.IntRange(0, 2).Draw(rt, "arrive") > 0) {
			q := &twinReq{src: rapid.IntRange(0, nsrc-1).Draw(rt, "src")}
			total++
			for w, lim := range []*connlimit.ConnLimiter{A, B[q.src]} {
				w, lim := w, lim
				q.recs[w] = simkit.NewRecorder()
				req := newRequest(q, srcName(q.src))
				q.tasks[w] = sim.Spawn(fmt.Sprintf("req%d/%d", total, w), func() { lim.ServeHTTP(q.recs[w], req) })
				sim.RunTask(q.tasks[w])
			}
			sim.Note("arrive", int64(q.src), b2i(q.entered[0]))
			if q.entered[0] != q.entered[1] {
				r.Fail("conn-interference", "source s%d: shared limiter admitted=%v, limiter seeing only this source admitted=%v (limit %d, in flight by source: %v)",
					q.src, q.entered[0], q.entered[1], limit, srcsInFlight)
			}
			if q.entered[0] {
				inflight = append(inflight, q)
				srcsInFlight[q.src] = true
				if len(srcsInFlight) > maxSrcOverlap {
					maxSrcOverlap = len(srcsInFlight)
				}
			} else if q.recs[0].Status != http.StatusTooManyRequests || q.recs[1].Status != http.StatusTooManyRequests {
				r.Fail("reject-status", "rejected request answered %d / %d", q.recs[0].Status, q.recs[1].Status)
			}
			continue
		}
		k := rapid.IntRange(0, len(inflight)-1).Draw(rt, "finish")
		q := inflight[k]
		inflight = append(inflight[:k], inflight[k+1:]...)
		ins := instr{status: 200, panic: rapid.IntRange(0, 4).Draw(rt, "abort") == 0}
		drawLeave(rt, &ins)
		if ins.panic {
			r.Fault("handler-" + leaveStyles[ins.style])
		}
		sim.Note("finish", int64(q.src), b2i(ins.panic))
		for w := 0; w < 2; w++ {
			sim.Unpark(q.tasks[w], ins)
			sim.RunTask(q.tasks[w])
			if !q.tasks[w].Done() {
				r.Fail("no-return", "request did not return")
			}
		}
		still := false
		for _, o := range inflight {
			if o.src == q.src {
				still = true
			}
		}
		if !still {
			delete(srcsInFlight, q.src)
		}
	}
	for _, q := range inflight {
		for w := 0; w < 2; w++ {
			sim.Unpark(q.tasks[w], instr{status: 200})
			sim.RunTask(q.tasks[w])
		}
	}
	r.FromSim(sim)
	if maxSrcOverlap >= 2 {
		r.Nontrivial()
	}
	r.Probe("conn-twin")
	r.Sample(func() any {
		return map[string]any{"mode": "conn-twin", "sources": nsrc, "limit": limit, "requests": total}
	})
}

// Over capacity with arbitrary access order and idle gaps beyond the entry
// lifetime. An entry's lifetime restarts on every access (C03 needs that: a busy
// source is never forgotten), so "nearest to expiry" is "least recently used",
// whether or not the entry has meanwhile expired; an expired entry that is
// touched by its own source starts afresh in the shared limiter and in its twin
// alike, so the model needs no knowledge of the lifetime itself.
func c14evictionLRU(r *simkit.Run) {
	rt := r.T
	guardRun = r
	drawSrcBase(r.T)
	capacity := rapid.IntRange(1, 4).Draw(rt, "capacity")
	nsrc := capacity + rapid.IntRange(1, 2*capacity).Draw(rt, "extra-sources")
	// now and then a limiter of a few hundred sources, filled first (what is true of a capacity of 3 is to be true of 300)
	var forced []int
	if rapid.IntRange(0, 11).Draw(rt, "large-capacity") == 0 {
		capacity = rapid.SampledFrom([]int{255, 256, 257, 300}).Draw(rt, "capacity-large")
		nsrc = capacity + rapid.IntRange(1, 8).Draw(rt, "extra-sources-large")
		forced = seq(capacity)
	}
	var rates []rateSpec
	for _, p := range []time.Duration{time.Second, 10 * time.Second} {
		if len(rates) == 0 || rapid.Bool().Draw(rt, "second-rate") {
			avg := int64(rapid.IntRange(1, 3).Draw(rt, "average"))
			rates = append(rates, rateSpec{p, avg, int64(rapid.IntRange(1, int(5*avg)).Draw(rt, "burst"))})
		}
	}
	drawRateSource(rt)
	// by draw the caller's rate extractor changes plan over time (hour plan, then second plan, ...): an
	// entry's lifetime then follows the plan in force at its last access. The oracle knows only that a
	// longer period never means a shorter lifetime: the least recently used source is certainly the one
	// nearest to expiry when no tracked source was last seen under a shorter period than it was.
	var regimes [][]rateSpec
	cur := 0
	if rapid.IntRange(0, 2).Draw(rt, "plans-change") == 0 {
		for k := rapid.IntRange(2, 3).Draw(rt, "plans"); k > 0; k-- {
			avg := int64(rapid.IntRange(1, 3).Draw(rt, "average"))
			regimes = append(regimes, []rateSpec{{rapid.SampledFrom([]time.Duration{time.Second, 10 * time.Second, time.Minute, time.Hour}).Draw(rt, "plan-period"), avg, int64(rapid.IntRange(1, int(5*avg)).Draw(rt, "burst"))}})
		}
		rates = regimes[0]
		rateOverride = func() ([]rateSpec, error) { return regimes[cur], nil }
		defer func() { rateOverride = nil }()
	}
	lastPeriod := map[int]time.Duration{}
	undetermined, planChanges := 0, 0
	_, unfreeze := freeze(rt)
	defer unfreeze()
	start := clock.Now()
	A := newTLim(rt, rates, capacity)
	B := make([]*tlim, nsrc)
	for i := range B {
		B[i] = newTLim(rt, rates, 1)
	}
	var lru []int // least recently used first
	touch := func(s int) (evicted int) {
		evicted = -1
		for i, x := range lru {
			if x == s {
				lru = append(append(lru[:i:i], lru[i+1:]...), s)
				return
			}
		}
		if len(lru) >= capacity {
			evicted = lru[0]
			lru = lru[1:]
		}
		lru = append(lru, s)
		return
	}
	var trace []string
	h := simkit.NewHash()
	evictions, expiries := 0, 0
	lastAccess := map[int]time.Duration{}
	nops := len(forced) + rapid.IntRange(4, 50).Draw(rt, "ops")
	for i := 0; i < nops; i++ {
		// different sources are touched at least a second apart (the lifetime is kept in whole seconds)
		d := time.Second + time.Duration(rapid.Int64Range(0, int64(2*time.Second)).Draw(rt, "dt"))
		if rapid.IntRange(0, 4).Draw(rt, "long-gap") == 0 {
			d = time.Duration(rapid.IntRange(20, 400).Draw(rt, "gap-s")) * time.Second
		}
		clock.Advance(d)
		r.SimTime(d)
		if regimes != nil && rapid.IntRange(0, 2).Draw(rt, "switch-plan") == 0 {
			if n := rapid.IntRange(0, len(regimes)-1).Draw(rt, "plan"); n != cur {
				cur = n
				rates = regimes[cur]
				planChanges++
			}
		}
		s := 0
		if i < len(forced) {
			s = forced[i]
		} else {
			s = rapid.IntRange(0, nsrc-1).Draw(rt, "src")
		}
		now := clock.Now().Sub(start)
		if la, ok := lastAccess[s]; ok && now-la > 10*maxPeriod(rates)+2*time.Second {
			expiries++
		}
		if _, tracked := lastPeriod[s]; !tracked && len(lru) >= capacity {
			// somebody is forgotten now: is it certain who?
			certain := true
			for _, x := range lru[1:] {
				if lastPeriod[x] < lastPeriod[lru[0]] {
					certain = false
				}
			}
			if !certain {
				undetermined++
				break
			}
		}
		lastAccess[s] = now
		lastPeriod[s] = maxPeriod(rates)
		if e := touch(s); e >= 0 {
			delete(lastPeriod, e)
			B[e] = newTLim(rt, rates, 1) // the forgotten source starts afresh
			evictions++
		}
		// drain at this instant, so that "starts afresh" is observable later
		for k := 0; k < 20; k++ {
			name := srcName(s)
			ra := A.do(name, 1)
			rb := B[s].do(name, 1)
			if len(trace) < 120 {
				trace = append(trace, fmt.Sprintf("t=%v s%d -> %d", now, s, ra.status))
			}
			h.Int(int64(s))
			h.Int(int64(ra.status))
			if !ra.same(rb) {
				r.Tracef("trace: %v", trace)
				r.Fail("eviction", "t=%v source s%d: limiter of capacity %d answered %d retry=%q; with only the least recently used source forgotten on each insertion (order now %v) the answer is %d retry=%q (rates %v)",
					now, s, capacity, ra.status, ra.retryHdr, lru, rb.status, rb.retryHdr, rates)
			}
			if ra.class() != ansAdmit {
				break
			}
		}
	}
	r.SetDigest(uint64(h))
	if evictions >= 1 {
		r.Nontrivial()
	}
	r.ProbeN("evictions", evictions)
	r.ProbeN("return-after-entry-lifetime", expiries)
	r.ProbeN("plan-changed-between-requests", planChanges)
	r.ProbeN("victim-undetermined-run-ended", undetermined)
	r.Probe("rate-eviction-lru")
	r.Sample(func() any {
		return map[string]any{"mode": "rate-eviction-lru", "rates": fmt.Sprint(rates), "sources": nsrc, "capacity": capacity, "evictions": evictions, "first_ops": trace}
	})
}

func seq(n int) []int {
	out := make([]int, n)
	for i := range out {
		out[i] = i
	}
	return out
}

// Sources with different rate sets (hence different entry lifetimes) over
// capacity. Which of the tracked sources is nearest to expiry then depends on
// the lifetime formula, which the oracle does not know; what it does know is
// that the source that has just arrived is not a tracked source yet and so is
// never the one forgotten: from its first request on it is limited exactly as
// it would be alone.
func c14evictionHetero(r *simkit.Run) {
	rt := r.T
	guardRun = r
	drawSrcBase(r.T)
	capacity := rapid.IntRange(1, 3).Draw(rt, "capacity")
	nsrc := capacity + rapid.IntRange(1, 8).Draw(rt, "extra-sources")
	periods := []time.Duration{time.Second, 10 * time.Second, time.Minute, time.Hour}
	ps := map[string][]rateSpec{}
	for s2 := 0; s2 < nsrc; s2++ {
		avg := int64(rapid.IntRange(1, 3).Draw(rt, "average"))
		ps[srcName(s2)] = []rateSpec{{rapid.SampledFrom(periods).Draw(rt, "period"), avg, int64(rapid.IntRange(1, int(3*avg)).Draw(rt, "burst"))}}
	}
	_, unfreeze := freeze(rt)
	defer unfreeze()
	start := clock.Now()
	perSourceRates = ps
	defer func() { perSourceRates = nil }()
	def := []rateSpec{{time.Second, 1, 1}}
	A := newTLim(rt, def, capacity)
	h := simkit.NewHash()
	var trace []string
	newcomers := 0
	tracked := map[int]bool{}
	nops := rapid.IntRange(3, 30).Draw(rt, "ops")
	for i := 0; i < nops; i++ {
		d := time.Second + time.Duration(rapid.Int64Range(0, int64(3*time.Second)).Draw(rt, "dt"))
		clock.Advance(d)
		r.SimTime(d)
		s2 := rapid.IntRange(0, nsrc-1).Draw(rt, "src")
		if tracked[s2] {
			// seen before: whether it is still tracked depends on lifetimes the oracle does not know; keep it drained, no oracle
			for k := 0; k < 12 && A.do(srcName(s2), 1).class() == ansAdmit; k++ {
			}
			continue
		}
		// a source never seen before: alone it would get exactly its burst at this instant, then be refused -
		// also (and especially) when the limiter is full and somebody has to be forgotten for it
		tracked[s2] = true
		if len(tracked) > capacity {
			newcomers++
		}
		alone := newTLim(rt, def, 1)
		for k := 0; k < 12; k++ {
			ra := A.do(srcName(s2), 1)
			rb := alone.do(srcName(s2), 1)
			if len(trace) < 100 {
				trace = append(trace, fmt.Sprintf("t=%v newcomer s%d -> %d", clock.Now().Sub(start), s2, ra.status))
			}
			h.Int(int64(s2))
			h.Int(int64(ra.status))
			if !ra.same(rb) {
				r.Tracef("trace: %v (rates per source %v)", trace, ps)
				r.Fail("newcomer-forgotten", "t=%v source s%d arrives at a full limiter (capacity %d): request %d answered %d retry=%q, alone it is answered %d retry=%q - the arriving source itself was forgotten (its rate %v, others %v)",
					clock.Now().Sub(start), s2, capacity, k+1, ra.status, ra.retryHdr, rb.status, rb.retryHdr, ps[srcName(s2)], ps)
			}
			if ra.class() != ansAdmit {
				break
			}
		}
	}
	r.SetDigest(uint64(h))
	if newcomers >= 1 {
		r.Nontrivial()
	}
	r.ProbeN("newcomer-into-full-limiter", newcomers)
	r.Probe("rate-eviction-hetero")
	r.Sample(func() any {
		return map[string]any{"mode": "rate-eviction-hetero", "rates_per_source": fmt.Sprint(ps), "capacity": capacity, "first_ops": trace}
	})
}

// The caller's log sink breaks once (at the n-th call of one level, by draw) in a limiter of small capacity whose
// entries expire within the run. The request that was logging is lost. A twin with a healthy logger gets the same
// requests at the same instants: whatever the limiter does before and after the lost request - expiry, making room,
// independent sources - the two must go on answering alike.
func c14brokenSink(r *simkit.Run) {
	rt := r.T
	guardRun = r
	drawSrcBase(rt)
	capacity := rapid.IntRange(1, 3).Draw(rt, "capacity")
	nsrc := capacity + rapid.IntRange(1, 3).Draw(rt, "extra-sources")
	avg := int64(rapid.IntRange(1, 3).Draw(rt, "average"))
	period := time.Duration(rapid.IntRange(1, 5).Draw(rt, "period-s")) * time.Second
	rates := []rateSpec{{period, avg, int64(rapid.IntRange(1, int(2*avg)).Draw(rt, "burst"))}}
	drawRateSource(rt)
	_, unfreeze := freeze(rt)
	defer unfreeze()
	start := clock.Now()
	left := rapid.IntRange(1, 4).Draw(rt, "log-call-that-panics")
	brokenSink = &simkit.FaultyLogger{Left: &left, Level: rapid.SampledFrom([]string{"debug", "warn", "warn", "info", "error"}).Draw(rt, "log-level-that-breaks")}
	A := newTLim(rt, rates, capacity)
	brokenSink = nil
	T := newTLim(rt, rates, capacity)
	var trace []string
	h := simkit.NewHash()
	lost := 0
	nops := rapid.IntRange(3, 60).Draw(rt, "ops")
	for i := 0; i < nops; i++ {
		switch rapid.IntRange(0, 5).Draw(rt, "step") {
		case 0, 1: // a little time: buckets refill partly
			d := time.Duration(rapid.Int64Range(1, int64(2*period)).Draw(rt, "dt"))
			clock.Advance(d)
			r.SimTime(d)
		case 2: // long enough for sources that stay away to outlive their entries
			d := time.Duration(rapid.Int64Range(int64(3*period), int64(40*period)).Draw(rt, "dt-long"))
			clock.Advance(d)
			r.SimTime(d)
		}
		s := rapid.IntRange(0, nsrc-1).Draw(rt, "source")
		amount := int64(rapid.IntRange(1, 2).Draw(rt, "amount"))
		ra := A.do(srcName(s), amount)
		rb := T.do(srcName(s), amount)
		t := clock.Now().Sub(start)
		h.Int(int64(s))
		h.Int(int64(ra.status))
		if len(trace) < 100 {
			trace = append(trace, fmt.Sprintf("t=%v s%d x%d -> %d lost=%v (twin %d)", t, s, amount, ra.status, ra.lost, rb.status))
		}
		if ra.lost {
			lost++
			r.Fault("logger-panic")
			continue
		}
		if !ra.same(rb) {
			r.Tracef("trace: %v", trace)
			r.Fail("eviction", "t=%v source s%d (amount %d): the limiter whose log sink broke once (%d requests lost so far) answers %d retry=%q, its twin with a healthy logger %d retry=%q (capacity %d, rates %v)",
				t, s, amount, lost, ra.status, ra.retryHdr, rb.status, rb.retryHdr, capacity, rates)
		}
	}
	r.SetDigest(uint64(h))
	if lost > 0 {
		r.Nontrivial()
	}
	r.Probe("rate-broken-sink")
	r.Sample(func() any {
		return map[string]any{"mode": "rate-broken-sink", "rates": fmt.Sprint(rates), "sources": nsrc, "capacity": capacity, "lost": lost, "first_ops": trace}
	})
}

// Sources whose rate sets belong to three classes of period so far apart - an hour, a thousand hours, two hundred
// thousand hours - that the order of their expiries is decided by the class under any lifetime that lies between one period
// and a hundred periods plus a hundred seconds (an envelope, not the limiter's formula), and within a class by who
// was seen last (accesses are two seconds or more apart, the run lasts minutes, so nothing expires). The tracked
// source nearest to expiry is then known at every insertion into a full limiter, whatever the order in which the
// sources came: entries are created and renewed with expiries that go up and down, in limiters large enough for the
// expiry queue to have some depth. Each source's twin is a limiter of its own; the victim's twin starts afresh.
func c14evictionRanked(r *simkit.Run) {
	rt := r.T
	guardRun = r
	drawSrcBase(r.T)
	capacity := rapid.IntRange(2, 9).Draw(rt, "capacity")
	nsrc := capacity + rapid.IntRange(1, 6).Draw(rt, "extra-sources")
	// in half of the runs a source sends one request per visit and its quota is one: an entry is then written once when
	// it is created and not again until the source returns (a second request would renew it, and re-file it in the
	// expiry queue, at once)
	single := rapid.Bool().Draw(rt, "one-request-per-visit")
	classes := []time.Duration{time.Hour, 1000 * time.Hour, 200_000 * time.Hour} // (beyond some 29 years of period the ttl map's expiry arithmetic leaves int64: see DESIGN, observations)
	ps := map[string][]rateSpec{}
	class := make([]int, nsrc)
	for s := 0; s < nsrc; s++ {
		class[s] = rapid.IntRange(0, len(classes)-1).Draw(rt, "period-class")
		avg := int64(rapid.IntRange(1, 3).Draw(rt, "average"))
		if single {
			avg = 1
		}
		ps[srcName(s)] = []rateSpec{{classes[class[s]], avg, avg}}
	}
	_, unfreeze := freeze(rt)
	defer unfreeze()
	start := clock.Now()
	perSourceRates = ps
	defer func() { perSourceRates = nil }()
	def := []rateSpec{{time.Second, 1, 1}}
	A := newTLim(rt, def, capacity)
	B := make([]*tlim, nsrc)
	for i := range B {
		B[i] = newTLim(rt, def, 1)
	}
	lastSeen := map[int]time.Duration{} // the tracked sources
	h := simkit.NewHash()
	var trace []string
	evictions, outOfOrder := 0, 0
	var lastExpiryRank [2]int64
	nops := capacity + rapid.IntRange(3, 40).Draw(rt, "ops")
	for i := 0; i < nops; i++ {
		d := 2*time.Second + time.Duration(rapid.Int64Range(0, int64(2*time.Second)).Draw(rt, "dt"))
		clock.Advance(d)
		r.SimTime(d)
		now := clock.Now().Sub(start)
		s := rapid.IntRange(0, nsrc-1).Draw(rt, "src")
		if _, tracked := lastSeen[s]; !tracked && len(lastSeen) >= capacity {
			victim := -1
			for x, t := range lastSeen {
				if victim < 0 || class[x] < class[victim] || (class[x] == class[victim] && t < lastSeen[victim]) {
					victim = x
				}
			}
			delete(lastSeen, victim)
			B[victim] = newTLim(rt, def, 1) // forgotten: it starts afresh
			evictions++
		}
		lastSeen[s] = now
		if rank := [2]int64{int64(class[s]), int64(now)}; rank[0] < lastExpiryRank[0] {
			outOfOrder++ // this entry's expiry lies before that of the entry written just before it
		} else {
			lastExpiryRank = rank
		}
		lastExpiryRank = [2]int64{int64(class[s]), int64(now)}
		for k := 0; k < 8; k++ {
			name := srcName(s)
			ra := A.do(name, 1)
			rb := B[s].do(name, 1)
			if len(trace) < 120 {
				trace = append(trace, fmt.Sprintf("t=%v s%d(class %d) -> %d", now, s, class[s], ra.status))
			}
			h.Int(int64(s))
			h.Int(int64(ra.status))
			if !ra.same(rb) {
				r.Tracef("trace: %v", trace)
				r.Fail("eviction", "t=%v source s%d (period %v): limiter of capacity %d answered %d retry=%q; with only the tracked source nearest to expiry forgotten on each insertion into the full limiter the answer is %d retry=%q (periods by source %v, tracked now %v)",
					now, s, classes[class[s]], capacity, ra.status, ra.retryHdr, rb.status, rb.retryHdr, class, lastSeen)
			}
			if ra.class() != ansAdmit || single {
				break
			}
		}
	}
	r.SetDigest(uint64(h))
	if evictions >= 1 {
		r.Nontrivial()
	}
	r.ProbeN("evictions", evictions)
	r.ProbeN("entry-written-with-an-earlier-expiry-than-the-one-before", outOfOrder)
	r.Probe("rate-eviction-ranked")
	r.Sample(func() any {
		return map[string]any{"mode": "rate-eviction-ranked", "period_class_by_source": fmt.Sprint(class), "capacity": capacity, "evictions": evictions, "first_ops": trace}
	})
}
