package limsim

import (
	"fmt"
	"testing"
	"time"

	"github.com/vulcand/oxy/v2/internal/holsterv4/clock"
	"github.com/vulcand/oxy/v2/zzverif/simkit"
	"pgregory.net/rapid"
)

func TestC13(t *testing.T) {
	simkit.Main(t, "C13", components, c13prop)
}

// C13: (1) twin-run differential - limiter B sees the history of limiter A minus
// the refused requests that are not the first access of their source at their
// instant; at one instant nothing can refill, so B must decide exactly as A;
// (2) a refused request (amount <= every burst) retried after the advertised
// delay, its source silent meanwhile, is admitted; (3) an idle source regains
// its burst; (4) amount > burst is an error, not a 429, and debits nothing.
func c13prop(r *simkit.Run) {
	rt := r.T
	guardRun = r
	drawSrcBase(r.T)
	maxAvg := int64(rapid.SampledFrom([]int{2, 5, 20, 200}).Draw(rt, "avg-scale"))
	// C13 is stated for every configuration: by draw bursts go far beyond the "burst <= 5 x average" domain of C03
	rates := drawRates(rt, rapid.IntRange(0, 3).Draw(rt, "wide-bursts") != 0, maxAvg)
	drawRateSource(rt)
	nsrc := rapid.IntRange(1, 4).Draw(rt, "sources")
	// by draw the caller's rate extractor changes plan while sources are being served: the same periods with
	// other averages and bursts (the source's buckets are kept and re-parameterised) or a different set. Every
	// clause is then judged under the plan in force, for a source whose buckets already carry that plan.
	plans := [][]rateSpec{rates}
	cur := 0
	if rapid.IntRange(0, 2).Draw(rt, "plans-change") == 0 {
		for k := rapid.IntRange(1, 2).Draw(rt, "more-plans"); k > 0; k-- {
			if rapid.IntRange(0, 2).Draw(rt, "fresh-plan") == 0 {
				plans = append(plans, drawRates(rt, true, maxAvg))
				continue
			}
			var v []rateSpec
			for _, b := range rates {
				avg := int64(rapid.IntRange(1, int(maxAvg)).Draw(rt, "plan-average"))
				v = append(v, rateSpec{b.period, avg, int64(rapid.IntRange(1, int(5*avg)).Draw(rt, "plan-burst"))})
			}
			plans = append(plans, v)
		}
		rateOverride = func() ([]rateSpec, error) { return plans[cur], nil }
		defer func() { rateOverride = nil }()
	}
	planChanges := 0
	_, unfreeze := freeze(rt)
	defer unfreeze()
	start := clock.Now()
	// by draw other traffic overlaps refusals: while the limiter is logging one source's refusal (decided, not yet
	// answered) a bystander source of its own asks too, and is admitted or refused on its own account. What the
	// first source is told must still be its own wait.
	overlapLogger = rapid.IntRange(0, 2).Draw(rt, "refusals-overlap") == 0
	defer func() { overlapLogger = false }()
	A := newTLim(rt, rates, nsrc+2)
	B := newTLim(rt, rates, nsrc+2)
	mb := minBurst(rates)
	nBystander := 0
	if overlapLogger {
		amts := rapid.SliceOfN(rapid.Int64Range(1, mb), 1, 6).Draw(rt, "bystander-amounts")
		A.onWarn = func() {
			A.do("bystander", amts[nBystander%len(amts)])
			nBystander++
		}
	}

	type srcState struct {
		lastAccess time.Duration // instant of the last access in A (-1: never)
		silentTill time.Duration // retry probe pending: source stays silent until then
		retryAmt   int64
		pending    bool
		plan       int // plan in force at the last access
	}
	st := make([]srcState, nsrc)
	for i := range st {
		st[i].lastAccess = -1
	}
	nRefusedDropped, nRetry, nIdle, nErr, nAdm, nPaced := 0, 0, 0, 0, 0, 0
	var trace []string
	h := simkit.NewHash()

	now := func() time.Duration { return clock.Now().Sub(start) }
	// one request in A, mirrored into B unless it is a droppable refusal
	request := func(src int, amount int64) tlResult {
		t := now()
		name := srcName(src)
		ra := A.do(name, amount)
		first := st[src].lastAccess != t || st[src].plan != cur // the first request under a new plan re-parameterises the buckets: the twin sees it too
		st[src].lastAccess = t
		st[src].plan = cur
		cls := ra.class()
		h.Int(int64(src))
		h.Int(int64(t))
		h.Int(amount)
		h.Str(cls)
		if len(trace) < 80 {
			trace = append(trace, fmt.Sprintf("t=%v s%d x%d -> %d %s", t, src, amount, ra.status, ra.retryHdr))
		}
		switch cls {
		case ansBad:
			r.Fail("malformed-answer", "status %d handled=%v retry=%q", ra.status, ra.handled, ra.retryHdr)
		case ansError:
			nErr++
			if amount <= mb {
				r.Fail("spurious-error", "request of %d units (every burst >= %d) answered %d", amount, mb, ra.status)
			}
		case ansAdmit:
			nAdm++
			if amount > mb {
				r.Fail("over-burst-admitted", "request of %d units admitted, smallest burst %d", amount, mb)
			}
		case ansReject:
			if amount > mb {
				r.Fail("over-burst-delayed", "request of %d units (> burst %d) got a retry delay %v instead of an error", amount, mb, ra.retryIn)
			}
		}
		if (cls == ansReject || cls == ansError) && !first {
			nRefusedDropped++
			return ra // B does not see it
		}
		rb := B.do(name, amount)
		if !ra.same(rb) {
			r.Tracef("trace: %v", trace)
			r.Fail("refusal-not-free", "at t=%v source s%d amount %d: limiter with %d extra refused requests answered %d retry=%q, twin without them answered %d retry=%q (rates %v)",
				t, src, amount, nRefusedDropped, ra.status, ra.retryHdr, rb.status, rb.retryHdr, rates)
		}
		return ra
	}
	advance := func(d time.Duration) {
		if d > 0 {
			clock.Advance(d)
			r.SimTime(d)
		}
	}
	// advance, but never jump over a pending retry instant: stop there and probe
	var stepTo func(d time.Duration)
	stepTo = func(d time.Duration) {
		for {
			next := time.Duration(-1)
			who := -1
			for i := range st {
				if st[i].pending && (next < 0 || st[i].silentTill < next) {
					next, who = st[i].silentTill, i
				}
			}
			if who < 0 || next > now()+d {
				advance(d)
				return
			}
			d -= next - now()
			advance(next - now())
			st[who].pending = false
			nRetry++
			res := request(who, st[who].retryAmt)
			if res.class() != ansAdmit {
				r.Tracef("trace: %v", trace)
				r.Fail("advertised-wait-insufficient", "source s%d: request of %d units retried exactly after the advertised delay, source silent meanwhile, answered %d %s (rates %v)",
					who, st[who].retryAmt, res.status, res.retryHdr, rates)
			}
		}
	}

	nops := rapid.IntRange(10, deep(150, 600)).Draw(rt, "ops")
	for i := 0; i < nops; i++ {
		var free []int
		for s := range st {
			if !st[s].pending {
				free = append(free, s)
			}
		}
		kind := rapid.SampledFrom([]string{"req", "req", "req", "flood", "step", "step", "idle-refill", "over-burst", "paced-flood", "plan-change"}).Draw(rt, "op")
		if len(free) == 0 {
			kind = "step"
		}
		switch kind {
		case "plan-change":
			// not while a retry probe is pending: the advertised delay was computed under the plan then in force
			if len(plans) > 1 && len(free) == nsrc {
				if n := rapid.IntRange(0, len(plans)-1).Draw(rt, "plan"); n != cur {
					cur = n
					rates = plans[cur]
					mb = minBurst(rates)
					planChanges++
					if len(trace) < 80 {
						trace = append(trace, fmt.Sprintf("t=%v plan -> %v", now(), rates))
					}
				}
			}
		case "req", "over-burst":
			src := free[rapid.IntRange(0, len(free)-1).Draw(rt, "src")]
			amount := int64(1)
			if kind == "over-burst" {
				amount = mb + int64(rapid.IntRange(1, 3).Draw(rt, "over"))
			} else if rapid.Bool().Draw(rt, "big") {
				amount = int64(rapid.IntRange(1, int(mb)).Draw(rt, "amt"))
			}
			res := request(src, amount)
			if res.class() == ansReject && rapid.Bool().Draw(rt, "retry-probe") {
				st[src].pending = true
				st[src].silentTill = now() + res.retryIn
				st[src].retryAmt = amount
			}
		case "flood":
			// many requests at one instant: once the bucket is empty they are all refused and must stay free
			src := free[rapid.IntRange(0, len(free)-1).Draw(rt, "src")]
			n := rapid.IntRange(2, 60).Draw(rt, "n")
			amount := int64(rapid.IntRange(1, int(mb)).Draw(rt, "amt"))
			for k := 0; k < n; k++ {
				request(src, amount)
			}
		case "paced-flood":
			// A source that keeps asking more often than its slowest rate refills is refused most of the time; those
			// refusals must not cost it the quota that accrues meanwhile: it still gets through about once per token
			// interval of the slowest rate. (Lower bound kept generous: half that rate, minus two.)
			if len(free) != nsrc {
				continue // no retry probe may be pending: the clock is advanced freely here
			}
			src := free[rapid.IntRange(0, len(free)-1).Draw(rt, "src")]
			var slow time.Duration
			for _, rr := range rates {
				if rr.perToken() > slow {
					slow = rr.perToken()
				}
			}
			delta := slow / time.Duration(rapid.IntRange(2, 4).Draw(rt, "flood-div"))
			if rapid.Bool().Draw(rt, "flood-just-below") {
				delta = slow - time.Duration(rapid.IntRange(1, 1000).Draw(rt, "flood-ns"))
			}
			if delta <= 0 {
				continue
			}
			for k := 0; k < 60; k++ { // drain at one instant
				if request(src, 1).class() != ansAdmit {
					break
				}
			}
			n := int(8*(slow+delta)/delta) + 1
			if n > 80 {
				continue
			}
			got := 0
			t0 := now()
			for k := 0; k < n; k++ {
				advance(delta)
				if request(src, 1).class() == ansAdmit {
					got++
				}
			}
			span := now() - t0
			need := int(span/(2*(slow+delta))) - 2
			nPaced++
			if got < need {
				r.Tracef("trace: %v", trace)
				r.Fail("refusals-starve-the-source", "source s%d asked for one unit every %v for %v (slowest rate: one token per %v): admitted %d times, at least %d expected - refused requests are eating the quota that accrues meanwhile (rates %v)",
					src, delta, span, slow, got, need, rates)
			}
		case "step":
			stepTo(drawStep(rt, rates, "dt"))
		case "idle-refill":
			// stay idle for burst x (period/average) of the slowest rate, then the full (smallest) burst is available at one instant
			src := free[rapid.IntRange(0, len(free)-1).Draw(rt, "src")]
			if st[src].lastAccess < 0 || st[src].plan != cur {
				continue
			}
			wait := refillTime(rates) - (now() - st[src].lastAccess)
			if wait > 0 {
				// other sources may run meanwhile; src is kept silent by marking it pending without a probe
				stepTo(wait)
			}
			if st[src].pending {
				continue
			}
			if now()-st[src].lastAccess < refillTime(rates) {
				continue
			}
			nIdle++
			if rapid.Bool().Draw(rt, "whole") {
				if res := request(src, mb); res.class() != ansAdmit {
					r.Tracef("trace: %v", trace)
					r.Fail("burst-not-regained", "source s%d idle for %v >= burst x period/average: one request of the whole burst %d answered %d %s (rates %v)",
						src, now()-st[src].lastAccess, mb, res.status, res.retryHdr, rates)
				}
			} else {
				for k := int64(0); k < mb && k < 40; k++ {
					if res := request(src, 1); res.class() != ansAdmit {
						r.Tracef("trace: %v", trace)
						r.Fail("burst-not-regained", "source s%d idle >= burst x period/average: unit request %d of burst %d answered %d %s (rates %v)", src, k+1, mb, res.status, res.retryHdr, rates)
					}
				}
			}
		}
	}
	// resolve pending retry probes
	for {
		var next time.Duration = -1
		for i := range st {
			if st[i].pending && (next < 0 || st[i].silentTill < next) {
				next = st[i].silentTill
			}
		}
		if next < 0 {
			break
		}
		stepTo(next - now())
	}
	r.SetDigest(uint64(h))
	if nRefusedDropped > 0 && nAdm > 0 {
		r.Nontrivial()
	}
	r.ProbeN("refused-requests-dropped-from-twin", nRefusedDropped)
	r.ProbeN("retry-after-advertised-delay", nRetry)
	r.ProbeN("request-of-another-source-while-a-refusal-is-being-logged", nBystander)
	r.ProbeN("idle-refill", nIdle)
	r.ProbeN("paced-flood", nPaced)
	r.ProbeN("plan-changed-between-requests", planChanges)
	r.ProbeN("amount>burst", nErr)
	if len(rates) > 1 {
		r.Probe("multi-rate")
	}
	r.Sample(func() any {
		return map[string]any{"rates": fmt.Sprint(rates), "sources": nsrc, "admitted": nAdm, "refused_dropped_from_twin": nRefusedDropped,
			"retry_probes": nRetry, "idle_refills": nIdle, "first_ops": trace}
	})
}
