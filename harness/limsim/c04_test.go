package limsim

import (
	"context"
	"errors"
	"fmt"
	"net/http"
	"runtime"
	"testing"
	"time"

	"github.com/anishathalye/porcupine"
	"github.com/vulcand/oxy/v2/connlimit"
	"github.com/vulcand/oxy/v2/utils"
	"github.com/vulcand/oxy/v2/zzverif/simkit"
	"github.com/vulcand/oxy/v2/zzverif/simrt"
	"pgregory.net/rapid"
)

var components = map[string][]string{
	"real": {"connlimit", "ratelimit", "internal/holsterv4/collections (TTLMap, PriorityQueue)", "utils (extractors, error handlers)"},
	"simulated": {"goroutine scheduling (simrt, yields at every mutex operation)", "clock (holsterv4 frozen clock advanced by the coordinator)",
		"client response writer (strict in-memory recorder)", "protected handler (scripted: parks until the simulator completes or panics it)"},
}

// one simulated request against the connection limiter
type c04req struct {
	id       int
	src      int
	task     *simrt.Task
	rec      *simkit.Recorder
	invoke   uint64 // seq at which ServeHTTP was invoked
	entered  bool
	enterSeq uint64
	exitSeq  uint64 // seq at which the handler was told to finish
	doneSeq  uint64
	done     bool
	panics   bool
	logPanic bool // the logger's sink broke in a log call made for this request
	status   int
	cancel   func() // ends the request's context (the client has gone away); the handler goes on until it returns
}

type c04in struct {
	enter bool
	src   int
}

func TestC04(t *testing.T) {
	simkit.Main(t, "C04", components, func(r *simkit.Run) { c04core(r, 1, false) })
}

// c04core drives the connection limiter; C14 reuses it with at least two
// sources and fine scheduling forced (the porcupine model is partitioned by
// source, i.e. each source's projected history must be explained by its own
// counter alone).
func c04core(r *simkit.Run, minSources int, forceFine bool) {
	drawSrcBase(r.T)
	rt := r.T
	nsrc := rapid.IntRange(minSources, 4).Draw(rt, "sources")
	limit := rapid.IntRange(0, 5).Draw(rt, "limit")
	fine := forceFine || rapid.Bool().Draw(rt, "fine")
	nops := rapid.IntRange(1, deep(40, 120)).Draw(rt, "ops")
	maxReq := deep(24, 60)

	sim := simrt.New(r.Chooser())
	defer sim.Shutdown()
	sim.Fine = fine
	if testing.Verbose() {
		sim.TraceF = r.Tracef
	}

	inHandler := make([]int, nsrc)
	var reqs []*c04req
	var unidentified []*c04req
	unidentifiedReqs := func() []*c04req { return unidentified }
	var violation string

	base, err := utils.NewExtractor("request.header." + rapid.SampledFrom([]string{"Src", "Src", "src", "SRC", "sRC"}).Draw(rt, "source-header-spelling"))
	if err != nil {
		rt.Fatalf("extractor: %v", err)
	}
	// the source of some requests cannot be identified (the extractor fails): they are answered with an error,
	// never reach the handler and must not touch anybody's slots
	extract := utils.ExtractorFunc(func(req *http.Request) (string, int64, error) {
		if req.Header.Get("X-Bad-Source") != "" {
			return "", 0, fmt.Errorf("simulated: source cannot be identified")
		}
		return base.Extract(req)
	})
	handler := http.HandlerFunc(func(w http.ResponseWriter, req *http.Request) {
		q := req.Context().Value(ctxKey{}).(*c04req)
		q.entered = true
		q.enterSeq = sim.Seq
		inHandler[q.src]++
		if inHandler[q.src] > limit && violation == "" {
			violation = fmt.Sprintf("source s%d has %d requests inside the handler, limit %d", q.src, inHandler[q.src], limit)
		}
		v := sim.Park("handler")
		inHandler[q.src]--
		q.exitSeq = sim.Seq
		ins := v.(instr)
		// a handler may do what it likes to the request it was handed, including to what identifies the source
		switch ins.rewrite {
		case 1:
			req.Header.Del("Src")
		case 2:
			req.Header.Set("Src", srcName((q.src+1)%nsrc))
		case 3:
			req.Header.Set("X-Bad-Source", "1")
		}
		if ins.panic {
			q.panics = !ins.goexit()
			ins.leave()
		}
		w.WriteHeader(ins.status)
		_, _ = w.Write([]byte("ok"))
	})
	var clOpts []connlimit.Option
	// by draw the caller's logger is slow (every call a yield point), and by a further draw its sink breaks once: one
	// log call panics. The request that made that call is lost to its client, whatever it was about to be told; the
	// slots are not: it holds one exactly while it is inside the handler, like any other.
	logLeft := -1
	if rapid.IntRange(0, 2).Draw(rt, "slow-logger") == 0 {
		if rapid.IntRange(0, 2).Draw(rt, "log-sink-breaks-once") == 0 {
			logLeft = rapid.IntRange(1, 30).Draw(rt, "log-call-that-panics")
		}
		clOpts = append(clOpts, connlimit.Logger(simkit.FaultyLogger{Left: &logLeft, OnPanic: func() {
			r.Fault("logger-panic")
			cur := sim.Current()
			for _, q := range reqs {
				if q.task == cur {
					q.logPanic = true
				}
			}
			for _, q := range unidentifiedReqs() {
				if q.task == cur {
					q.logPanic = true
				}
			}
		}}), connlimit.Verbose(rapid.Bool().Draw(rt, "verbose")))
	}
	ownHandler := rapid.IntRange(0, 2).Draw(rt, "own-error-handler") == 0
	if ownHandler {
		// same mapping as the default handler plus a mark: the configured handler answers every refusal, once
		clOpts = append(clOpts, connlimit.ErrorHandler(utils.ErrorHandlerFunc(func(w http.ResponseWriter, req *http.Request, err error) {
			w.Header().Add("X-Own-Err-Handler", "1")
			var cerr *connlimit.MaxConnError
			if errors.As(err, &cerr) {
				w.WriteHeader(http.StatusTooManyRequests)
				return
			}
			w.WriteHeader(http.StatusInternalServerError)
		})))
	}
	cl, err := connlimit.New(handler, extract, int64(limit), clOpts...)
	if err != nil {
		rt.Fatalf("connlimit.New: %v", err)
	}

	model := make([]int, nsrc) // coarse mode: admitted and not yet finished

	arriveBad := func(src int) *c04req {
		q := &c04req{id: -1, src: src, rec: simkit.NewRecorder()}
		unidentified = append(unidentified, q)
		req := newRequest(q, srcName(src))
		req.Header.Set("X-Bad-Source", "1")
		q.task = sim.Spawn(fmt.Sprintf("bad(s%d)", src), func() {
			defer func() { q.done = true; q.status = q.rec.Status }()
			cl.ServeHTTP(q.rec, req)
		})
		sim.Note("arrive-unidentified", int64(src))
		return q
	}
	arrive := func(src int) *c04req {
		q := &c04req{id: len(reqs), src: src, rec: simkit.NewRecorder()}
		reqs = append(reqs, q)
		req := newRequest(q, srcName(src))
		ctx, cancel := context.WithCancel(req.Context())
		q.cancel = cancel
		req = req.WithContext(ctx)
		q.task = sim.Spawn(fmt.Sprintf("req%d(s%d)", q.id, src), func() {
			q.invoke = sim.Seq
			defer func() { q.done = true; q.doneSeq = sim.Seq; q.status = q.rec.Status }()
			cl.ServeHTTP(q.rec, req)
		})
		sim.Note("arrive", int64(q.id), int64(src))
		return q
	}
	parked := func() []*c04req {
		var out []*c04req
		for _, q := range reqs {
			if _, ok := q.task.Parked(); ok {
				out = append(out, q)
			}
		}
		return out
	}
	check := func() {
		if violation != "" {
			r.Fail("limit-exceeded", "%s", violation)
		}
		if sim.Deadlocked() {
			r.Fail("deadlock", "no task can run but %d wait for a lock", len(sim.Blocked()))
		}
	}
	finish := func(q *c04req, ins instr) {
		sim.Note("finish", int64(q.id), b2i(ins.panic), int64(ins.status))
		if ins.panic {
			r.Fault("handler-" + leaveStyles[ins.style])
		}
		sim.Unpark(q.task, ins)
	}
	// coarse-mode exact admission oracle, evaluated when a request has been run to its park/end
	coarseAfterArrive := func(q *c04req) {
		if q.logPanic {
			if q.entered {
				model[q.src]++
			}
			return // lost before it was told anything, or admitted: either way no answer to judge
		}
		want := model[q.src] < limit
		if q.entered != want {
			r.Fail("admission", "coarse: source s%d had %d in flight (limit %d): admitted=%v", q.src, model[q.src], limit, q.entered)
		}
		if q.entered {
			model[q.src]++
		} else {
			if !q.done || q.rec.Status != http.StatusTooManyRequests {
				r.Fail("reject-status", "rejected request answered %d (done=%v), want 429", q.rec.Status, q.done)
			}
		}
	}

	overlapMax := 0
	for i := 0; i < nops; i++ {
		var kinds []string
		if len(reqs) < maxReq {
			kinds = append(kinds, "arrive", "arrive", "arrive-unidentified")
		}
		pk := parked()
		if len(pk) > 0 {
			kinds = append(kinds, "finish", "finish", "panic")
		}
		if fine && len(sim.Runnable()) > 0 {
			kinds = append(kinds, "step", "step", "step")
		}
		if len(kinds) == 0 {
			break
		}
		if len(pk) > 0 {
			kinds = append(kinds, "rewrap", "client-gone")
		}
		switch rapid.SampledFrom(kinds).Draw(rt, "op") {
		case "client-gone":
			// the client of a request that is inside the handler goes away (its context ends); the handler is still
			// running, so the request still counts until it returns
			q := pk[rapid.IntRange(0, len(pk)-1).Draw(rt, "whose-client")]
			if q.cancel != nil {
				q.cancel()
				runtime.Gosched() // anything the limiter hooked onto the context runs now rather than at a random later point
				time.Sleep(50 * time.Microsecond)
			}
			r.Fault("client-gone-while-in-handler")
		case "rewrap":
			// the chain is re-assembled around the limiter while requests are inside: the accounting is unaffected
			cl.Wrap(handler)
			r.Probe("rewrapped-with-requests-in-flight")
		case "arrive":
			q := arrive(rapid.IntRange(0, nsrc-1).Draw(rt, "src"))
			if !fine {
				sim.RunTask(q.task)
				check()
				coarseAfterArrive(q)
			}
		case "arrive-unidentified":
			q := arriveBad(rapid.IntRange(0, nsrc-1).Draw(rt, "src"))
			if !fine {
				sim.RunTask(q.task)
				check()
			}
			r.Fault("source-unidentifiable")
		case "finish", "panic":
			q := pk[rapid.IntRange(0, len(pk)-1).Draw(rt, "which")]
			ins := instr{status: rapid.SampledFrom([]int{200, 201, 404, 500, 503}).Draw(rt, "status"), rewrite: rapid.SampledFrom([]int{0, 0, 0, 1, 2, 3}).Draw(rt, "handler-rewrites-source")}
			if rapid.IntRange(0, 3).Draw(rt, "abort") == 0 {
				ins.panic = true
				drawLeave(rt, &ins)
			}
			finish(q, ins)
			if !fine {
				sim.RunTask(q.task)
				check()
				if !q.done {
					r.Fail("no-return", "request %d did not return after its handler finished", q.id)
				}
				model[q.src]--
			}
		case "step":
			n := rapid.IntRange(1, 8).Draw(rt, "steps")
			for k := 0; k < n && sim.StepChosen(); k++ {
				check()
			}
		}
		if n := len(parked()); n > overlapMax {
			overlapMax = n
		}
	}
	// drain: everything still in flight is completed (normally or by panic)
	for {
		sim.Quiesce()
		check()
		pk := parked()
		if len(pk) == 0 {
			break
		}
		ins := instr{status: 200, panic: rapid.IntRange(0, 3).Draw(rt, "drain-abort") == 0}
		drawLeave(rt, &ins)
		finish(pk[0], ins)
	}
	for _, q := range reqs {
		if !q.done {
			r.Fail("no-return", "request %d never returned", q.id)
		}
		if q.panics && q.task.Panic == nil {
			r.Fail("panic-swallowed", "request %d: handler panic did not propagate", q.id)
		}
		if !q.panics && !q.logPanic && q.task.Panic != nil {
			r.Fail("unexpected-panic", "request %d: %v\n%s", q.id, q.task.Panic, q.task.PanicSite)
		}
		if !q.entered && !q.logPanic && q.status != http.StatusTooManyRequests {
			r.Fail("reject-status", "request %d not admitted but answered %d", q.id, q.status)
		}
	}
	for _, q := range unidentified {
		if !q.done || q.entered || (q.status < 400 && !q.logPanic) {
			r.Fail("unidentified-source", "a request whose source could not be identified: done=%v reached the handler=%v status %d (expected an error response and no handler call)", q.done, q.entered, q.status)
		}
	}
	for s := range inHandler {
		if inHandler[s] != 0 {
			r.Fail("harness", "inHandler[%d]=%d after drain", s, inHandler[s])
		}
	}

	// fine mode: two-sided history against a per-source counter
	if fine && len(reqs) > 0 {
		var ops []porcupine.Operation
		for _, q := range reqs {
			if q.logPanic && !q.entered {
				continue // lost before the handler, refused or not: no slot taken either way, nothing to explain
			}
			ops = append(ops, porcupine.Operation{ClientId: q.id, Input: c04in{true, q.src}, Call: int64(2 * q.invoke),
				Output: q.entered, Return: int64(2*ternary(q.entered, q.enterSeq, q.doneSeq) + 1)})
			if q.entered {
				ops = append(ops, porcupine.Operation{ClientId: q.id, Input: c04in{false, q.src}, Call: int64(2 * q.exitSeq),
					Output: true, Return: int64(2*q.doneSeq + 1)})
			}
		}
		res := porcupine.CheckOperationsTimeout(c04model(limit), ops, 20*time.Second)
		switch res {
		case porcupine.Illegal:
			r.Fail("admission-history", "history of %d requests is not linearizable against the per-source counter (limit %d): %s", len(reqs), limit, describe(reqs))
		case porcupine.Unknown:
			r.Inconclusive()
		}
	}

	// bounded liveness: all slots are back
	logLeft = -1 // the sink has been repaired
	for s := 0; s < nsrc; s++ {
		var batch []*c04req
		for k := 0; k < limit; k++ {
			q := arrive(s)
			sim.RunTask(q.task)
			check()
			if !q.entered {
				r.Fail("slot-leak", "after all requests ended, source s%d admitted only %d of %d new requests", s, k, limit)
			}
			batch = append(batch, q)
		}
		q := arrive(s)
		sim.RunTask(q.task)
		check()
		if q.entered || q.rec.Status != http.StatusTooManyRequests {
			r.Fail("over-admission", "source s%d admitted request number %d (limit %d), status %d", s, limit+1, limit, q.rec.Status)
		}
		if q.entered {
			batch = append(batch, q)
		}
		for _, b := range batch {
			finish(b, instr{status: 200})
			sim.RunTask(b.task)
		}
		check()
	}

	if ownHandler {
		for _, q := range reqs {
			if n := len(q.rec.Snapshot.Values("X-Own-Err-Handler")); q.done && !q.entered && !q.logPanic && n != 1 {
				r.Fail("own-error-handler", "request r%d of s%d was not admitted (status %d) and the configured error handler answered %d times", q.id, q.src, q.rec.Status, n)
			}
		}
		r.Probe("own-error-handler")
	}
	r.FromSim(sim)
	if overlapMax >= 2 {
		r.Nontrivial()
		r.Probe("overlap>=2")
	}
	if sim.LockWaits > 0 {
		r.Probe("lock-contention")
	}
	if fine && sim.Switches > 2 {
		r.Probe("fine-interleaving")
	}
	r.Sample(func() any {
		return map[string]any{"sources": nsrc, "limit": limit, "fine": fine, "requests": describe(reqs), "steps": sim.Steps}
	})
}

func c04model(limit int) porcupine.Model {
	return porcupine.Model{
		Partition: func(history []porcupine.Operation) [][]porcupine.Operation {
			m := map[int][]porcupine.Operation{}
			var keys []int
			for _, o := range history {
				s := o.Input.(c04in).src
				if _, ok := m[s]; !ok {
					keys = append(keys, s)
				}
				m[s] = append(m[s], o)
			}
			var out [][]porcupine.Operation
			for _, k := range keys {
				out = append(out, m[k])
			}
			return out
		},
		Init: func() interface{} { return 0 },
		Step: func(state, input, output interface{}) (bool, interface{}) {
			n := state.(int)
			in := input.(c04in)
			if !in.enter {
				return n > 0, n - 1
			}
			if output.(bool) {
				return n < limit, n + 1
			}
			return n >= limit, n
		},
		Equal: func(a, b interface{}) bool { return a.(int) == b.(int) },
	}
}

func describe(reqs []*c04req) string {
	s := ""
	for _, q := range reqs {
		s += fmt.Sprintf("[r%d s%d inv=%d admitted=%v enter=%d exit=%d done=%d panic=%v status=%d] ", q.id, q.src, q.invoke, q.entered, q.enterSeq, q.exitSeq, q.doneSeq, q.panics, q.status)
	}
	return s
}

func ternary(c bool, a, b uint64) uint64 {
	if c {
		return a
	}
	return b
}

func b2i(b bool) int64 {
	if b {
		return 1
	}
	return 0
}
