package limsim

import (
	"context"
	"fmt"
	"net/http"
	"net/url"
	"runtime"
	"pgregory.net/rapid"
)

type ctxKey struct{}

type instr struct {
	status  int
	panic   bool
	style   int // how an aborting handler leaves, see leaveStyles
	rewrite int // what the handler does to the source-identifying header before it returns
}

// The ways a handler leaves without returning: a panic with a string, net/http's own sentinel (what a reverse proxy
// raises when its backend breaks off mid-body), a value that is not an error, an error value, and runtime.Goexit
// (what t.FailNow and some frameworks do: deferred calls run, nothing propagates).
var leaveStyles = []string{"panic-string", "panic-ErrAbortHandler", "panic-non-error", "panic-error", "goexit"}

func drawLeave(rt *rapid.T, ins *instr) {
	if ins.panic {
		ins.style = rapid.IntRange(0, len(leaveStyles)-1).Draw(rt, "abort-style")
	}
}

func (ins instr) goexit() bool { return ins.panic && ins.style == 4 }

// leave ends the handler the way the instruction says; returns only when the handler is to go on normally.
func (ins instr) leave() {
	if !ins.panic {
		return
	}
	switch ins.style {
	case 1:
		panic(http.ErrAbortHandler)
	case 2:
		panic(42)
	case 3:
		panic(fmt.Errorf("handler abort (error value)"))
	case 4:
		runtime.Goexit()
	}
	panic("handler abort")
}

func newRequest(tag any, src string) *http.Request {
	req := &http.Request{
		Method:     "GET",
		URL:        &url.URL{Scheme: "http", Host: "sim", Path: "/"},
		Proto:      "HTTP/1.1",
		ProtoMajor: 1,
		ProtoMinor: 1,
		Header:     http.Header{"Src": []string{src}},
		Host:       "sim",
		RemoteAddr: "10.0.0.1:1234",
	}
	return req.WithContext(context.WithValue(context.Background(), ctxKey{}, tag))
}

// source tokens share prefixes and suffixes and differ in case, so that a key
// built from a truncated, trimmed or case-folded token merges two sources
var srcNames = []string{"10.0.0.1", "10.0.0.10", "10.0.0.11", "110.0.0.1", "fe80::1", "FE80::1", "x", "X", "10.0.0.1 ", "0.0.0.1", "10.0.0.2", "10.0.0.20", "[::1]", "::1"}

// srcBase rotates the list per run, so that any neighbouring tokens (the pairs that differ only in case, by a
// trailing blank, by one digit) can be the first sources of a run with few sources.
var srcBase int

func drawSrcBase(rt *rapid.T) {
	srcBase = rapid.IntRange(0, len(srcNames)-1).Draw(rt, "source-tokens-from")
}

// srcName: the first sources of a run come from the list of awkward tokens, any further ones are numbered.
func srcName(i int) string {
	if i < len(srcNames) {
		return srcNames[(srcBase+i)%len(srcNames)]
	}
	return fmt.Sprintf("172.16.%d.%d", i/250, i%250)
}
