package limsim

import (
	"context"
	"net/http"
	"net/url"
)

type ctxKey struct{}

type instr struct {
	status int
	panic  bool
}

func newRequest(tag any, src string) *http.Request {
	req := &http.Request{
		Method:     "GET",
		URL:        &url.URL{Scheme: "http", Host: "sim", Path: "/"},
		Proto:      "HTTP/1.1",
		ProtoMajor: 1,
		ProtoMinor: 1,
		Header:     http.Header{"Src": []string{src}},
		Host:       "sim",
		RemoteAddr: "10.0.0.1:1234",
	}
	return req.WithContext(context.WithValue(context.Background(), ctxKey{}, tag))
}
