package limsim

import (
	"fmt"
	"testing"
	"time"

	"github.com/vulcand/oxy/v2/internal/holsterv4/clock"
	"github.com/vulcand/oxy/v2/zzverif/simkit"
	"github.com/vulcand/oxy/v2/zzverif/simrt"
	"pgregory.net/rapid"
)

func TestC03(t *testing.T) {
	simkit.Main(t, "C03", components, c03prop)
}

// arrival process of one phase of the workload
const (
	phReturn    = "return-just-short-of-the-refill-time"
	phBurst     = "burst-at-one-instant"
	phSustained = "sustained"
	phPaced     = "exact-pacing"
	phMixed     = "mixed-steps"
	phIdle      = "idle-gap"
	phConc      = "concurrent-arrivals"
)

func c03prop(r *simkit.Run) {
	rt := r.T
	guardRun = r
	drawSrcBase(r.T)
	inDomain := rapid.IntRange(0, 9).Draw(rt, "domain") != 0
	maxAvg := int64(rapid.SampledFrom([]int{3, 10, 50, 1000}).Draw(rt, "avg-scale"))
	rates := drawRates(rt, inDomain, maxAvg)
	drawRateSource(rt)
	nsrc := rapid.IntRange(1, 8).Draw(rt, "sources")
	capacity := nsrc + rapid.IntRange(0, 3).Draw(rt, "spare-capacity")
	_, unfreeze := freeze(rt)
	defer unfreeze()
	start := clock.Now()
	// dynamic configuration: a rate extractor supplies a second rate set while it works; when it fails or returns
	// nothing the limiter's defaults are the configured rates. Each stretch of requests under one regime must obey
	// that regime's bound.
	dynamic := inDomain && rapid.IntRange(0, 3).Draw(rt, "dynamic-rates") == 0
	var extracted []rateSpec
	extractorMode := 0 // 0 healthy, 1 error, 2 empty set
	regime := 0
	regimeRates := map[int][]rateSpec{}
	regimeWhy := map[int]string{}
	if dynamic {
		extracted = drawRates(rt, true, maxAvg)
		rateOverride = func() ([]rateSpec, error) {
			switch extractorMode {
			case 1:
				return nil, fmt.Errorf("simulated: rate lookup failed")
			case 2:
				return nil, nil
			}
			return extracted, nil
		}
		defer func() { rateOverride = nil }()
	}
	lim := newTLim(rt, rates, capacity)
	rateOverride = nil
	// requests arriving at once are served by concurrent tasks, interleaved at every lock operation of the limiter
	sim := simrt.New(r.Chooser())
	defer sim.Shutdown()
	sim.Fine = true
	concurrent := 0

	admitted := make([][]admitEv, nsrc)
	mb := minBurst(rates)
	nAdm, nRej, nErr := 0, 0, 0
	firstSeen := make([]time.Duration, nsrc)
	for i := range firstSeen {
		firstSeen[i] = -1
	}
	busyPastLifetime := false
	lastAdmit := make([]time.Duration, nsrc)
	opsLeft := rapid.IntRange(20, deep(400, 2000)).Draw(rt, "ops")
	var trace []string

	var pendingKind, pendingMsg string
	failf := func(kind, format string, args ...any) {
		if sim.Current() != nil { // inside a task: report from the coordinator once the tasks are done
			if pendingKind == "" {
				pendingKind, pendingMsg = kind, fmt.Sprintf(format, args...)
			}
			return
		}
		r.Fail(kind, format, args...)
	}
	request := func(src int, amount int64) {
		now := clock.Now().Sub(start)
		res := lim.do(srcName(src), amount)
		opsLeft--
		if firstSeen[src] < 0 {
			firstSeen[src] = now
		}
		if len(trace) < 60 {
			trace = append(trace, fmt.Sprintf("t=%v s%d x%d -> %d", now, src, amount, res.status))
		}
		mb := minBurst(rates)
		if dynamic && extractorMode == 0 {
			mb = minBurst(extracted)
		}
		switch res.class() {
		case ansAdmit:
			nAdm++
			if amount > mb {
				failf("over-burst-admitted", "request of %d units admitted although a configured burst is %d (rates %v)", amount, mb, rates)
			}
			// "busy past the entry lifetime": the source has been served continuously (no gap longer than two
			// max periods) for longer than 10 max periods + 2s, whatever the exact lifetime is
			if lastAdmit[src] > 0 && now-lastAdmit[src] > 2*maxPeriod(rates) {
				firstSeen[src] = now
			}
			lastAdmit[src] = now
			if now-firstSeen[src] > 10*maxPeriod(rates)+2*time.Second {
				busyPastLifetime = true
			}
			if dynamic {
				if extractorMode == 0 {
					regimeRates[regime], regimeWhy[regime] = extracted, "healthy"
				} else {
					regimeRates[regime], regimeWhy[regime] = rates, []string{"", "failing", "returning an empty set"}[extractorMode]
				}
			}
			admitted[src] = append(admitted[src], admitEv{now, amount, regime})
		case ansReject:
			nRej++
		case ansError:
			nErr++
			if amount <= mb {
				failf("spurious-error", "request of %d units (<= every burst, rates %v) answered %d", amount, rates, res.status)
			}
		default:
			failf("malformed-answer", "status %d handled=%v retry=%q", res.status, res.handled, res.retryHdr)
		}
	}
	drawAmount := func() int64 {
		switch rapid.IntRange(0, 9).Draw(rt, "amt-kind") {
		case 0:
			return mb
		case 1:
			return int64(rapid.IntRange(1, int(mb)).Draw(rt, "amt"))
		case 2:
			return mb + int64(rapid.IntRange(1, 3).Draw(rt, "amt-over"))
		default:
			return 1
		}
	}
	advance := func(d time.Duration) {
		if d > 0 {
			clock.Advance(d)
			r.SimTime(d)
		}
	}

	for opsLeft > 0 {
		src := rapid.IntRange(0, nsrc-1).Draw(rt, "src")
		rate := rates[rapid.IntRange(0, len(rates)-1).Draw(rt, "phase-rate")]
		switch rapid.SampledFrom([]string{phBurst, phSustained, phSustained, phPaced, phMixed, phMixed, phIdle, phConc, "extractor-toggle", phReturn}).Draw(rt, "phase") {
		case phReturn:
			// the source takes its whole burst, stays away for just short of the time the burst needs to come back
			// (the limiter must still remember it), and asks for the whole burst again
			request(src, rate.burst)
			gap := time.Duration(rate.burst)*rate.perToken() - time.Duration(rapid.Int64Range(0, int64(time.Second)).Draw(rt, "short-of-refill"))
			if gap > 0 {
				advance(gap)
			}
			request(src, rate.burst)
			request(src, 1)
		case "extractor-toggle":
			if dynamic {
				extractorMode = rapid.IntRange(0, 2).Draw(rt, "extractor-mode")
				regime++
			}
			opsLeft--
		case phConc:
			// 2-4 requests in flight at the same instant (often of one source, also right after an idle gap that let its entry lapse)
			k := rapid.IntRange(2, 4).Draw(rt, "conc-tasks")
			same := rapid.Bool().Draw(rt, "conc-same-source")
			for i := 0; i < k && opsLeft > 0; i++ {
				s2 := src
				if !same {
					s2 = rapid.IntRange(0, nsrc-1).Draw(rt, "src")
				}
				amount := drawAmount()
				sim.Spawn(fmt.Sprintf("conc%d", i), func() { request(s2, amount) })
			}
			sim.Quiesce()
			for _, tk := range sim.Tasks() {
				if tk.Panic != nil {
					r.Fail("panic", "concurrent request panicked: %v\n%s", tk.Panic, tk.PanicSite)
				}
			}
			if sim.Deadlocked() {
				r.Fail("deadlock", "concurrent requests deadlocked")
			}
			if pendingKind != "" {
				r.Fail(pendingKind, "%s", pendingMsg)
			}
			concurrent++
		case phBurst:
			n := rapid.IntRange(1, int(min64(3*rate.burst+3, 60))).Draw(rt, "n")
			for i := 0; i < n && opsLeft > 0; i++ {
				request(src, drawAmount())
			}
		case phSustained:
			// traffic at 0.5x-20x the rate for a drawn number of periods, possibly far beyond any entry lifetime
			periods := rapid.IntRange(1, 40).Draw(rt, "periods")
			mult := rapid.SampledFrom([]int{1, 2, 4, 20, -2}).Draw(rt, "mult") // -2 = half rate
			amount := int64(rapid.IntRange(1, int(min64(mb, rate.average))).Draw(rt, "amt"))
			// one request of `amount` every amount*tpt/mult
			step := time.Duration(amount) * rate.perToken()
			if mult > 0 {
				step /= time.Duration(mult)
			} else {
				step *= 2
			}
			end := clock.Now().Add(time.Duration(periods) * rate.period)
			for clock.Now().Before(end) && opsLeft > 0 {
				request(src, amount)
				if step <= 0 {
					break
				}
				advance(step)
			}
		case phPaced:
			n := rapid.IntRange(1, 40).Draw(rt, "n")
			for i := 0; i < n && opsLeft > 0; i++ {
				request(src, 1)
				advance(rate.perToken())
			}
		case phMixed:
			n := rapid.IntRange(1, 30).Draw(rt, "n")
			for i := 0; i < n && opsLeft > 0; i++ {
				request(rapid.IntRange(0, nsrc-1).Draw(rt, "src"), drawAmount())
				advance(drawStep(rt, rates, "dt"))
			}
		case phIdle:
			advance(drawStep(rt, rates, "idle"))
			opsLeft--
		}
	}

	if inDomain && dynamic {
		// split every source's admissions into stretches under one regime; which rates a regime had is recorded below
		for s := range admitted {
			for i := 0; i < len(admitted[s]); {
				j := i
				for j < len(admitted[s]) && admitted[s][j].regime == admitted[s][i].regime {
					j++
				}
				rs := regimeRates[admitted[s][i].regime]
				for _, rate := range rs {
					if ok, msg := checkBound(admitted[s][i:j], rate); !ok {
						r.Tracef("first operations: %v", trace)
						r.Fail("rate-bound", "source s%d, while the rates in force were %v (rate extractor %s): %s", s, rs, regimeWhy[admitted[s][i].regime], msg)
					}
				}
				i = j
			}
		}
		r.Probe("dynamic-rates")
	} else if inDomain {
		for s := range admitted {
			for _, rate := range rates {
				if ok, msg := checkBound(admitted[s], rate); !ok {
					r.Tracef("first operations: %v", trace)
					r.Fail("rate-bound", "source s%d %s (rates %v, capacity %d, %d sources)", s, msg, rates, capacity, nsrc)
				}
			}
		}
	}
	h := simkit.NewHash()
	for s := range admitted {
		for _, e := range admitted[s] {
			h.Int(int64(s))
			h.Int(int64(e.t))
			h.Int(e.amount)
		}
	}
	h.Int(int64(nRej))
	r.SetDigest(uint64(h))
	if nAdm >= 2 && nRej >= 1 {
		r.Nontrivial()
	}
	if busyPastLifetime {
		r.Probe("source-busy-past-entry-lifetime")
	}
	if !inDomain {
		r.Probe("out-of-domain-config")
	}
	if nErr > 0 {
		r.Probe("amount>burst")
	}
	if len(rates) > 1 {
		r.Probe("multi-rate")
	}
	r.ProbeN("concurrent-arrival-phases", concurrent)
	r.FromSim(sim)
	r.SetDigest(uint64(h))
	r.Sample(func() any {
		return map[string]any{"rates": fmt.Sprint(rates), "sources": nsrc, "capacity": capacity, "admitted": nAdm, "rejected": nRej, "errors": nErr,
			"sim_span": clock.Now().Sub(start).String(), "first_ops": trace}
	})
}

func min64(a, b int64) int64 {
	if a < b {
		return a
	}
	return b
}
