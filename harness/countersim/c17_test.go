package countersim

import (
	"fmt"
	"math"
	"testing"
	"time"

	"github.com/vulcand/oxy/v2/internal/holsterv4/clock"
	"github.com/vulcand/oxy/v2/memmetrics"
	"github.com/vulcand/oxy/v2/zzverif/simkit"
	"pgregory.net/rapid"
)

var components = map[string][]string{
	"real":      {"memmetrics.RollingCounter", "memmetrics.RatioCounter"},
	"simulated": {"clock (simulated clock advanced by the coordinator; by draw a running clock: time passes before individual reads); no scheduling dimension: the counter is documented as externally locked"},
}

// inc is an increment that was made at some instant in [t0, t1] (the clock may tick while the call runs)
type inc struct {
	t0, t1 time.Duration
	v      int64 // the amount, or its lower bound when vHi > v (an Append whose source was not read first)
	vHi    int64
}

func (e inc) hi() int64 {
	if e.vHi > e.v {
		return e.vHi
	}
	return e.v
}

// window sums of a reference list for a read made at some instant in [n0, n1]: events certainly younger
// than (N-1)*r count for the lower bound, events possibly not older than N*r for the upper bound.
func bounds(evs []inc, n0, n1 time.Duration, n int, r time.Duration) (lo, hi int64) {
	for _, e := range evs {
		if n1-e.t0 < time.Duration(n-1)*r {
			lo += e.v
		}
		if n0-e.t1 <= time.Duration(n)*r {
			hi += e.hi()
		}
	}
	return
}

func drawResolution(rt *rapid.T) time.Duration {
	switch rapid.IntRange(0, 9).Draw(rt, "res-kind") {
	case 0, 1:
		return time.Second
	case 2:
		return 1500 * time.Millisecond
	case 3:
		return 2 * time.Second
	case 4:
		return 2500 * time.Millisecond
	case 5:
		return 7 * time.Second
	case 6:
		return time.Minute
	case 7:
		return time.Hour
	case 8:
		return time.Duration(rapid.IntRange(1, 30).Draw(rt, "res-s")) * time.Second
	default:
		return time.Second + time.Duration(rapid.Int64Range(0, int64(3*time.Second)).Draw(rt, "res-ns"))
	}
}

func drawStep(rt *rapid.T, n int, r time.Duration) time.Duration {
	switch rapid.IntRange(0, 9).Draw(rt, "dt-kind") {
	case 0, 1:
		return 0
	case 2:
		return time.Duration(rapid.Int64Range(1, int64(r)-1).Draw(rt, "dt-sub"))
	case 3:
		return r
	case 4:
		return r - 1
	case 5:
		return r + 1
	case 6:
		return time.Duration(rapid.IntRange(1, n+1).Draw(rt, "dt-k")) * r
	case 7:
		return time.Duration(rapid.Int64Range(0, int64(r)*int64(n+2)).Draw(rt, "dt-any"))
	case 8:
		return time.Duration(n)*r + time.Duration(rapid.Int64Range(-2, 2).Draw(rt, "dt-edge"))
	default:
		return time.Duration(rapid.IntRange(2, 50).Draw(rt, "dt-windows")) * time.Duration(n) * r
	}
}

func TestC17(t *testing.T) {
	simkit.Main(t, "C17", components, c17prop)
}

func c17prop(r *simkit.Run) {
	rt := r.T
	n := rapid.IntRange(1, 20).Draw(rt, "buckets")
	if rapid.IntRange(0, 5).Draw(rt, "many-buckets") == 0 {
		// the constructor accepts any positive count: around the widths of machine words, and well beyond
		n = rapid.SampledFrom([]int{31, 32, 33, 63, 64, 65, 66, 100, 127, 128, 129, 300}).Draw(rt, "bucket-count")
	}
	res := drawResolution(rt)
	epoch := time.Unix(rapid.Int64Range(1_000_000_000, 4_400_000_000).Draw(rt, "epoch-s"), rapid.Int64Range(0, 999_999_999).Draw(rt, "epoch-ns")).UTC()
	clock.SimFreeze(epoch)
	defer clock.SimUnfreeze()
	ratioMode := rapid.Bool().Draw(rt, "ratio-counter")
	var (
		c    *memmetrics.RollingCounter
		rc   *memmetrics.RatioCounter
		err  error
		evsA []inc
		evsB []inc
	)
	if ratioMode {
		rc, err = memmetrics.NewRatioCounter(n, res)
	} else {
		c, err = memmetrics.NewCounter(n, res)
	}
	if err != nil {
		rt.Fatalf("constructor refused buckets=%d resolution=%v: %v", n, res, err)
	}
	now := func() time.Duration { return clock.SimPeek().UTC().Sub(epoch) } // looking at the clock from outside does not make time pass
	// by draw the clock is a running one: some time passes before each read the counter makes of it
	// (mostly none, sometimes up to and across the next slot boundary), so a call takes place over an interval
	ticks := 0
	var tick func() time.Duration
	if rapid.IntRange(0, 3).Draw(rt, "running-clock") == 0 {
		tick = func() time.Duration {
			var d time.Duration
			switch rapid.IntRange(0, 11).Draw(rt, "tick") {
			case 0:
				d = 1
			case 1:
				d = time.Duration(rapid.Int64Range(1, int64(res)).Draw(rt, "tick-sub"))
			case 2: // exactly onto the next multiple of the resolution
				t := clock.SimPeek()
				d = t.Truncate(res).Add(res).Sub(t)
			case 3:
				d = res
			}
			if d > 0 {
				ticks++
			}
			return d
		}
		clock.SimTick(tick)
	}
	var t0 time.Duration // start of the call under way
	begin := func() { t0 = now() }
	h := simkit.NewHash()
	reads, nontrivialReads, gaps := 0, 0, 0
	var trace []string
	note := func(format string, args ...any) {
		if len(trace) < 80 {
			trace = append(trace, fmt.Sprintf("t=%v ", now())+fmt.Sprintf(format, args...))
		}
	}
	checkCount := func(what string, got int64, evs []inc) {
		lo, hi := bounds(evs, t0, now(), n, res)
		reads++
		if lo != hi || lo > 0 {
			nontrivialReads++
		}
		h.Int(got)
		if got < lo || got > hi {
			r.Tracef("history: %v", trace)
			r.Fail("window-count", "%s = %d read during t=[%v, %v], but increments within the last (N-1)*r=%v sum to %d and within the last N*r=%v to %d (N=%d r=%v epoch %v)",
				what, got, t0, now(), time.Duration(n-1)*res, lo, time.Duration(n)*res, hi, n, res, epoch)
		}
	}
	// counter mode works on a small population: the first counter plus clones that are
	// kept and used later (RTMetrics.Export hands such copies out), each with its own history
	type inst struct {
		c   *memmetrics.RollingCounter
		evs []inc
		id  int
	}
	insts := []*inst{{c: c}}
	keptClones, appends := 0, 0
	pick := func(label string) *inst {
		if len(insts) == 1 {
			return insts[0]
		}
		return insts[rapid.IntRange(0, len(insts)-1).Draw(rt, label)]
	}
	// other users of the package in the process: counters of their own, with bucket counts and resolutions of their
	// own, built and used while the counters under test live (by draw; none of them is ever appended to ours)
	var others []*memmetrics.RollingCounter
	neighbourOps := 0
	opKinds := []string{"inc", "inc", "inc", "read", "read", "step", "step", "reset", "clone", "append"}
	if rapid.IntRange(0, 2).Draw(rt, "neighbour-counters") == 0 {
		opKinds = append(opKinds, "neighbour")
		if rapid.Bool().Draw(rt, "neighbour-from-the-start") {
			if o, err := memmetrics.NewCounter(rapid.IntRange(1, 20).Draw(rt, "neighbour-buckets"), drawResolution(rt)); err == nil {
				others = append(others, o)
			}
		}
	}
	nops := rapid.IntRange(3, deep(120, 600)).Draw(rt, "ops")
	for i := 0; i < nops; i++ {
		switch rapid.SampledFrom(opKinds).Draw(rt, "op") {
		case "neighbour":
			neighbourOps++
			if k := rapid.IntRange(0, 3).Draw(rt, "neighbour-op"); k == 0 || len(others) == 0 {
				if o, err := memmetrics.NewCounter(rapid.IntRange(1, 20).Draw(rt, "neighbour-buckets"), drawResolution(rt)); err == nil {
					others = append(others, o)
				}
			} else if o := others[rapid.IntRange(0, len(others)-1).Draw(rt, "which-neighbour")]; k == 1 {
				_ = o.Count()
			} else {
				o.Inc(rapid.IntRange(0, 5).Draw(rt, "neighbour-v"))
			}
		case "inc":
			v := rapid.IntRange(0, 5).Draw(rt, "v")
			if ratioMode {
				if rapid.Bool().Draw(rt, "a?") {
					begin()
					rc.IncA(v)
					evsA = append(evsA, inc{t0: t0, t1: now(), v: int64(v)})
					note("IncA(%d)", v)
				} else {
					begin()
					rc.IncB(v)
					evsB = append(evsB, inc{t0: t0, t1: now(), v: int64(v)})
					note("IncB(%d)", v)
				}
			} else {
				in := pick("which")
				begin()
				in.c.Inc(v)
				in.evs = append(in.evs, inc{t0: t0, t1: now(), v: int64(v)})
				note("#%d.Inc(%d)", in.id, v)
			}
		case "read":
			if ratioMode {
				if rapid.Bool().Draw(rt, "ratio?") {
					begin()
					got := rc.Ratio()
					note("Ratio()=%v", got)
					aLo, aHi := bounds(evsA, t0, now(), n, res)
					bLo, bHi := bounds(evsB, t0, now(), n, res)
					frac := func(a, b int64) float64 {
						if a+b == 0 {
							return 0
						}
						return float64(a) / float64(a+b)
					}
					lo, hi := frac(aLo, bHi), frac(aHi, bLo)
					reads++
					if aHi+bHi > 0 {
						nontrivialReads++
					}
					h.Int(int64(got * 1e6))
					if math.IsNaN(got) || got < lo-1e-12 || got > hi+1e-12 {
						r.Tracef("history: %v", trace)
						r.Fail("ratio", "Ratio() = %v at t=%v, admissible [%v, %v] (A in [%d,%d], B in [%d,%d], N=%d r=%v)", got, now(), lo, hi, aLo, aHi, bLo, bHi, n, res)
					}
				} else {
					begin()
					a := rc.CountA()
					note("CountA()=%d", a)
					checkCount("CountA()", a, evsA)
					begin()
					b := rc.CountB()
					note("CountB()=%d", b)
					checkCount("CountB()", b, evsB)
				}
			} else {
				in := pick("which")
				begin()
				got := in.c.Count()
				note("#%d.Count()=%d", in.id, got)
				checkCount(fmt.Sprintf("#%d.Count()", in.id), got, in.evs)
			}
		case "step":
			d := drawStep(rt, n, res)
			if now()+d > 200*365*24*time.Hour {
				break // instants are measured as time.Duration since the epoch of the run, which holds 292 years
			}
			if d > time.Duration(n)*res {
				gaps++
			}
			clock.SimAdvance(d)
			r.SimTime(d)
		case "reset":
			if rapid.IntRange(0, 3).Draw(rt, "really") == 0 {
				if ratioMode {
					rc.Reset()
					evsA, evsB = nil, nil
					note("Reset()")
				} else {
					in := pick("which")
					in.c.Reset()
					in.evs = nil
					note("#%d.Reset()", in.id)
				}
			}
		case "clone":
			if !ratioMode {
				src := pick("which")
				begin()
				cl := src.c.Clone()
				got := cl.Count()
				note("#%d.Clone().Count()=%d", src.id, got)
				checkCount("Clone().Count()", got, src.evs)
				if len(insts) < 4 && rapid.Bool().Draw(rt, "keep-clone") {
					insts = append(insts, &inst{c: cl, evs: append([]inc(nil), src.evs...), id: len(insts)})
					keptClones++
					note("clone of #%d kept as #%d", src.id, len(insts)-1)
				}
			}
		case "append":
			if !ratioMode && len(insts) > 1 {
				a, b := pick("into"), pick("from")
				if a != b {
					clock.SimTick(nil)
					begin()
					if rapid.Bool().Draw(rt, "read-source-first") {
						// Append reads the other counter itself: no time passes between that read and ours
						got := b.c.Count()
						checkCount(fmt.Sprintf("#%d.Count()", b.id), got, b.evs)
						if err := a.c.Append(b.c); err != nil {
							r.Fail("append-refused", "#%d.Append(#%d): %v", a.id, b.id, err)
						}
						a.evs = append(a.evs, inc{t0: t0, t1: now(), v: got})
						note("#%d.Append(#%d) adds %d", a.id, b.id, got)
					} else {
						// the source has not been looked at since it last changed (it may hold buckets that are due to age
						// out): what is added is what the source would report now, known only by its bounds
						lo, hi := bounds(b.evs, t0, t0, n, res)
						if err := a.c.Append(b.c); err != nil {
							r.Fail("append-refused", "#%d.Append(#%d): %v", a.id, b.id, err)
						}
						a.evs = append(a.evs, inc{t0: t0, t1: now(), v: lo, vHi: hi})
						note("#%d.Append(#%d) adds between %d and %d", a.id, b.id, lo, hi)
					}
					clock.SimTick(tick)
					appends++
				}
			}
		}
	}
	r.SetDigest(uint64(h))
	if nontrivialReads >= 1 {
		r.Nontrivial()
	}
	r.ProbeN("reads", reads)
	r.ProbeN("multi-window-gap", gaps)
	r.ProbeN("clone-kept-and-used-later", keptClones)
	r.ProbeN("append", appends)
	r.ProbeN("neighbour-counter-built-or-used", neighbourOps)
	r.ProbeN("time-passed-between-clock-reads", ticks)
	if res != time.Second {
		r.Probe("resolution!=1s")
	}
	if res%time.Second != 0 {
		r.Probe("fractional-resolution")
	}
	if ratioMode {
		r.Probe("ratio-counter")
	}
	r.Sample(func() any {
		return map[string]any{"buckets": n, "resolution": res.String(), "epoch": epoch.String(), "ratio": ratioMode, "history": trace}
	})
}
