package countersim

import "github.com/vulcand/oxy/v2/zzverif/simkit"

// deep picks the bound of a size range by tier: the thorough tier explores longer histories
func deep(quick, thorough int) int {
	if simkit.Thorough() {
		return thorough
	}
	return quick
}
