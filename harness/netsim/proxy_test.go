package netsim

import (
	"bufio"
	"bytes"
	"context"
	"crypto/tls"
	"fmt"
	"io"
	"log"
	"net"
	"net/http"
	"net/http/httptest"
	"net/url"
	"os"
	"runtime"
	"strconv"
	"strings"
	"sync"
	"syscall"
	"time"

	"github.com/vulcand/oxy/v2/forward"
)

var components = map[string][]string{
	"real": {"forward.New (httputil.ReverseProxy configured by oxy: Director, header rewriter, error handler)", "forward.StateListener", "utils.StdHandler", "net/http server (go1.23.5) in front of the forwarder", "net/http.Transport towards the backend"},
	"simulated": {"client connection and backend connection (in-memory conns with arbitrary peer address strings, close, reset, stall; faults placed at byte offsets of the response stream)", "dial (refused / timed out)",
		"backend (scripted byte-level peer: records the request bytes it receives, writes a scripted response or a prefix of it)", "client (writes raw request bytes, reads one response)",
		"TLS (flag set on the request as by a TLS-terminating listener; no handshake)"},
	"not scheduled by the simulator": {"net/http's internal goroutines: each exchange is one causal chain and faults are tied to stream positions, so the observable outcome does not depend on their interleaving (re-checked by the determinism probe)"},
}

const backendHost = "backend.internal:8081"

// what the scripted backend does
type backendPlan struct {
	dial     string // "", "refused", "timeout"
	response []byte // full response bytes (head + body framing)
	headLen  int
	cutAt    int    // bytes of response to write before `then` (-1 = all)
	then     string // "", "close", "reset", "stall"
	garbage  bool
}

type listenerEvent struct {
	url   string
	state int
}

type exchangeResult struct {
	// client side
	clientErr error // error reading the response head
	status    int
	header    http.Header
	body      []byte
	bodyErr   error
	rawHead   string
	// proxy side
	recorded    int // status the proxy wrote (even if the client was gone)
	events      []listenerEvent
	serverLog   string
	handlerDone bool
	// backend side
	backendReq []byte
	dialed     int
	hung       string
	lateProbes int    // how often the late-probe order was actually imposed
	order      string // connected / inner-start / inner-end / disconnected, in the order they happened
}

type recWriter struct {
	http.ResponseWriter
	mu     *sync.Mutex
	status *int
}

func (r *recWriter) WriteHeader(code int) {
	r.mu.Lock()
	if *r.status == 0 {
		*r.status = code
	}
	r.mu.Unlock()
	r.ResponseWriter.WriteHeader(code)
}

func (r *recWriter) Write(p []byte) (int, error) {
	r.mu.Lock()
	if *r.status == 0 {
		*r.status = 200
	}
	r.mu.Unlock()
	return r.ResponseWriter.Write(p)
}

func (r *recWriter) Flush() {
	if f, ok := r.ResponseWriter.(http.Flusher); ok {
		f.Flush()
	}
}

func (r *recWriter) Unwrap() http.ResponseWriter { return r.ResponseWriter }

type exchangeSpec struct {
	rawRequest    []byte
	peerAddr      string
	tlsOn         bool
	passHost      bool
	plan          backendPlan
	headerTimeout time.Duration
	ctxTimeout    time.Duration // deadline put on the request context in front of the forwarder (a timeout middleware)
	// lateProbe: the transport's last read of the request body (the probe for bytes beyond the declared length) is
	// scheduled after the response has started to reach the client. Otherwise the backend answers only once the
	// proxy has finished sending the request. (net/http leaves this order to the goroutine scheduler.)
	lateProbe        bool
	backendURLExtras bool // the caller's backend URL carries a path and a query of its own
	// neighbour: another user of the forward package in the same process - a second forwarder with its own,
	// differently configured header rewriter (no trust in upstream headers, another instance name), built
	// before (1) or after (2) the forwarder under test and used for a request of its own.
	neighbour int
	// slow: the client reads slowly - its receive window is small, and after the first bytes of the body it pauses
	// (paused is closed) until resume is closed; the proxy meanwhile waits in a write with response bytes in hand
	slow *slowClient
	// listenerBreaksOnDisconnect: the caller's listener panics when told 'disconnected' (having noted the call)
	listenerBreaksOnDisconnect bool
	// goroutineExits: the handler between the listener and the forwarder ends its goroutine (runtime.Goexit: deferred
	// calls run, nothing propagates, recover() sees nothing) - 1: once the forwarder has returned, 2: before it is called
	goroutineExits int
	// client behaviour
	clientCloseWhenBackendHasRequest bool // client goes away while the backend is stalled before responding
	clientCloseAfterBody             int  // >0: client closes after reading that many body bytes (backend stalled mid-body)
}

// A hang is declared after hangTicks waits of hangTick each, counted by this goroutine as it is actually scheduled:
// a stall of the whole process (a paused virtual machine, a starved host) costs one tick however long it lasts,
// which a single wall-clock timeout would mistake for a hang.
const (
	hangTick  = 100 * time.Millisecond
	hangTicks = 150
)

// waitFor waits for ch to be closed; false means a hang.
func waitFor(ch <-chan struct{}) bool {
	for i := 0; i < hangTicks; i++ {
		select {
		case <-ch:
			return true
		case <-time.After(hangTick):
		}
	}
	select {
	case <-ch:
		return true
	default:
		return false
	}
}

// runExchange plays one request through a fresh proxy and backend.
func runExchange(spec exchangeSpec) exchangeResult {
	var res exchangeResult
	var mu sync.Mutex
	proxyLn := newListener("10.9.9.9:80")
	backendGotRequest := make(chan struct{})
	releaseBackend := make(chan struct{})
	backendDone := make(chan struct{})
	probed := make(chan struct{}) // late-probe order: the probe has been made (or the transport is done with the request body)
	var probedOnce sync.Once
	reqWritten := make(chan struct{}) // the proxy's transport has finished sending the request (it then closes the request body)
	var reqWrittenOnce sync.Once
	var cc *memConn
	var backendOnce sync.Once
	var backendConns []*memConn

	serveBackend := func(c *memConn) {
		defer backendOnce.Do(func() { close(backendDone) })
		br := bufio.NewReader(c)
		var got bytes.Buffer
		// read the request head
		cl, chunked := 0, false
		for {
			line, err := br.ReadString('\n')
			got.WriteString(line)
			if err != nil {
				mu.Lock()
				res.backendReq = got.Bytes()
				mu.Unlock()
				return
			}
			l := strings.ToLower(strings.TrimSpace(line))
			if strings.HasPrefix(l, "content-length:") {
				cl, _ = strconv.Atoi(strings.TrimSpace(l[len("content-length:"):]))
			}
			if strings.HasPrefix(l, "transfer-encoding:") && strings.Contains(l, "chunked") {
				chunked = true
			}
			if line == "\r\n" {
				break
			}
		}
		if chunked {
			for {
				line, err := br.ReadString('\n')
				got.WriteString(line)
				if err != nil {
					break
				}
				n, _ := strconv.ParseInt(strings.TrimSpace(line), 16, 64)
				buf := make([]byte, n+2)
				_, err = io.ReadFull(br, buf)
				got.Write(buf)
				if err != nil || n == 0 {
					break
				}
			}
		} else if cl > 0 {
			buf := make([]byte, cl)
			_, _ = io.ReadFull(br, buf)
			got.Write(buf)
		}
		mu.Lock()
		res.backendReq = append([]byte(nil), got.Bytes()...)
		mu.Unlock()
		close(backendGotRequest)
		if !spec.lateProbe {
			select {
			case <-reqWritten:
			case <-releaseBackend:
			}
		}
		p := spec.plan
		out := p.response
		if p.cutAt >= 0 && p.cutAt < len(out) {
			out = out[:p.cutAt]
		}
		if spec.lateProbe && len(out) > p.headLen+lateProbeFirstPart {
			// the response starts, the transport's probe of the request body happens, the response goes on
			_, _ = c.Write(out[:p.headLen+lateProbeFirstPart])
			out = out[p.headLen+lateProbeFirstPart:]
			select {
			case <-probed:
			case <-releaseBackend:
			}
		}
		if len(out) > 0 {
			_, _ = c.Write(out)
		}
		switch p.then {
		case "close":
			c.Close()
		case "reset":
			c.Reset()
		case "stall":
			<-releaseBackend
			c.Close()
		default:
			// complete response written; wait for the peer to finish reading, then close
			<-releaseBackend
			c.Close()
		}
	}

	transport := &http.Transport{
		DisableKeepAlives:     true,
		ResponseHeaderTimeout: spec.headerTimeout,
		DialContext: func(ctx context.Context, network, address string) (net.Conn, error) {
			mu.Lock()
			res.dialed++
			mu.Unlock()
			switch spec.plan.dial {
			case "refused":
				return nil, &net.OpError{Op: "dial", Net: "tcp", Addr: addr(address), Err: os.NewSyscallError("connect", syscall.ECONNREFUSED)}
			case "timeout":
				return nil, &net.OpError{Op: "dial", Net: "tcp", Addr: addr(address), Err: timeoutError{}}
			case "no-descriptors": // the proxy is out of file descriptors: temporary, and no timeout
				return nil, &net.OpError{Op: "dial", Net: "tcp", Addr: addr(address), Err: os.NewSyscallError("socket", syscall.EMFILE)}
			case "dns-servfail": // the resolver cannot answer right now: temporary, and no timeout
				return nil, &net.OpError{Op: "dial", Net: "tcp", Err: &net.DNSError{Err: "server misbehaving", Name: "backend.internal", IsTemporary: true}}
			case "dns-notfound":
				return nil, &net.OpError{Op: "dial", Net: "tcp", Err: &net.DNSError{Err: "no such host", Name: "backend.internal", IsNotFound: true}}
			}
			a, b := connPair("10.9.9.9:40000", address)
			mu.Lock()
			backendConns = append(backendConns, a, b)
			mu.Unlock()
			go serveBackend(b)
			return a, nil
		},
	}
	neighbour := func() {
		nr := forward.NewHeaderRewriter()
		nr.TrustForwardHeader, nr.Hostname = false, "neighbour-instance"
		nreq, _ := http.NewRequest("GET", "http://neighbour.example/", nil)
		nreq.RemoteAddr = "198.51.100.1:9"
		nreq.Header.Set("X-Forwarded-For", "203.0.113.200")
		nr.Rewrite(nreq)
		nf := forward.New(!spec.passHost)
		nf.Transport = roundTripFunc(func(*http.Request) (*http.Response, error) {
			return &http.Response{StatusCode: 204, Header: http.Header{}, Body: http.NoBody}, nil
		})
		nf.ServeHTTP(httptest.NewRecorder(), nreq)
	}
	if spec.neighbour == 1 {
		neighbour()
	}
	fwd := forward.New(spec.passHost)
	fwd.Transport = transport
	if spec.neighbour == 2 {
		neighbour()
	}
	var slog bytes.Buffer
	var slogMu sync.Mutex
	var order []string
	mark := func(s string) {
		mu.Lock()
		order = append(order, s)
		mu.Unlock()
	}
	inner := http.HandlerFunc(func(w http.ResponseWriter, req *http.Request) {
		mark("inner-start")
		defer mark("inner-end")
		req.URL = &url.URL{Scheme: "http", Host: backendHost}
		if spec.backendURLExtras {
			// the URL by which the caller designates the backend has a path and a query of its own (a base path, an
			// access token): the backend is that host; path and query are the client's
			req.URL.Path, req.URL.RawQuery = "/base", "token=s3cret"
		}
		if req.Body != nil && req.Body != http.NoBody && req.ContentLength != 0 {
			req.Body = &orderedBody{rc: req.Body, written: func() { reqWrittenOnce.Do(func() { close(reqWritten) }); probedOnce.Do(func() { close(probed) }) },
				probed: func() { probedOnce.Do(func() { close(probed) }) },
				late:   spec.lateProbe, responseStarted: func() bool { return cc != nil && cc.received() > 0 }, giveUp: releaseBackend,
				imposed: func() { mu.Lock(); res.lateProbes++; mu.Unlock() }}
		} else {
			reqWrittenOnce.Do(func() { close(reqWritten) })
			probedOnce.Do(func() { close(probed) })
		}
		if spec.tlsOn {
			req.TLS = &tls.ConnectionState{}
		}
		if spec.ctxTimeout > 0 {
			// a deadline on the request context (a timeout middleware in front of the forwarder) that expires while the
			// backend, having received the whole request, stays silent. The expiry is tied to that event, not to a
			// timer: on a loaded machine a timed deadline can fire while the request is still being sent.
			ctx := &eventDeadline{Context: req.Context(), done: make(chan struct{}), at: time.Now().Add(spec.ctxTimeout)}
			go func() {
				select {
				case <-backendGotRequest:
				case <-releaseBackend:
				}
				close(ctx.done)
			}()
			req = req.WithContext(ctx)
		}
		if spec.goroutineExits == 2 {
			runtime.Goexit()
		}
		fwd.ServeHTTP(w, req)
		if spec.goroutineExits == 1 {
			runtime.Goexit()
		}
	})
	sl := forward.NewStateListener(inner, func(u *url.URL, state int) {
		mark([]string{"connected", "disconnected"}[state&1])
		mu.Lock()
		res.events = append(res.events, listenerEvent{u.String(), state})
		mu.Unlock()
		if spec.listenerBreaksOnDisconnect && state&1 == 1 {
			panic("simulated: the caller's connection-state listener is broken")
		}
	})
	handlerDone := make(chan struct{})
	var hdOnce sync.Once
	top := http.HandlerFunc(func(w http.ResponseWriter, req *http.Request) {
		defer hdOnce.Do(func() { close(handlerDone) })
		sl.ServeHTTP(&recWriter{ResponseWriter: w, mu: &mu, status: &res.recorded}, req)
	})
	srv := &http.Server{Handler: top, ErrorLog: log.New(writerFunc(func(p []byte) (int, error) {
		slogMu.Lock()
		defer slogMu.Unlock()
		return slog.Write(p)
	}), "", 0)}
	go func() { _ = srv.Serve(proxyLn) }()

	var err error
	cc, err = proxyLn.dial(spec.peerAddr)
	if err != nil {
		res.hung = "cannot reach proxy listener"
		return res
	}
	if spec.slow != nil {
		cc.r.mu.Lock()
		cc.r.window = spec.slow.window
		cc.r.mu.Unlock()
	}
	_, _ = cc.Write(spec.rawRequest)

	type readResult struct {
		resp *http.Response
		err  error
		body []byte
		berr error
		raw  string
	}
	rd := make(chan readResult, 1)
	rdDone := make(chan struct{})
	go func() {
		var rr readResult
		var raw bytes.Buffer
		br := bufio.NewReader(io.TeeReader(cc, &raw))
		rr.resp, rr.err = http.ReadResponse(br, nil)
		if rr.err == nil {
			if i := bytes.Index(raw.Bytes(), []byte("\r\n\r\n")); i >= 0 {
				rr.raw = string(raw.Bytes()[:i])
			}
			if spec.clientCloseAfterBody > 0 {
				buf := make([]byte, spec.clientCloseAfterBody)
				n, e := io.ReadFull(rr.resp.Body, buf)
				rr.body, rr.berr = buf[:n], e
				if e == nil {
					rr.berr = errClientClosed
				}
				cc.Close()
			} else if spec.slow != nil {
				first := make([]byte, spec.slow.readFirst)
				n, e := io.ReadFull(rr.resp.Body, first)
				rr.body, rr.berr = first[:n], e
				close(spec.slow.paused)
				if e == nil {
					waitFor(spec.slow.resume)
					rest, e := io.ReadAll(rr.resp.Body)
					rr.body, rr.berr = append(rr.body, rest...), e
				} else if e == io.EOF || e == io.ErrUnexpectedEOF {
					rr.berr = nil // the body was shorter than the first portion
				}
			} else {
				rr.body, rr.berr = io.ReadAll(rr.resp.Body)
			}
		}
		rd <- rr
		close(rdDone)
	}()
	if spec.clientCloseWhenBackendHasRequest {
		if !waitFor(backendGotRequest) {
			res.hung = "backend never received the request"
		}
		cc.Close()
	}
	if waitFor(rdDone) {
		rr := <-rd
		res.clientErr = rr.err
		if rr.resp != nil {
			res.status, res.header, res.body, res.bodyErr, res.rawHead = rr.resp.StatusCode, rr.resp.Header, rr.body, rr.berr, rr.raw
		}
	} else {
		res.hung = "client got neither a response nor a closed connection"
	}
	if waitFor(handlerDone) {
		mu.Lock()
		res.handlerDone = true
		mu.Unlock()
	} else if res.hung == "" {
		res.hung = "proxy handler did not return"
	}
	cc.Close()
	close(releaseBackend)
	_ = srv.Close()
	proxyLn.Close()
	transport.CloseIdleConnections()
	mu.Lock()
	for _, c := range backendConns {
		c.Close()
	}
	mu.Unlock()
	slogMu.Lock()
	res.serverLog = slog.String()
	slogMu.Unlock()
	mu.Lock()
	defer mu.Unlock()
	out := res
	out.order = strings.Join(order, ",")
	out.events = append([]listenerEvent(nil), res.events...)
	return out
}

type slowClient struct {
	window, readFirst int
	paused, resume    chan struct{}
}

var errClientClosed = fmt.Errorf("client closed the connection on purpose")

type writerFunc func(p []byte) (int, error)

func (f writerFunc) Write(p []byte) (int, error) { return f(p) }

// parseHead splits raw request bytes into request line, ordered header fields and body.
func parseHead(raw []byte) (line string, fields [][2]string, body []byte) {
	i := bytes.Index(raw, []byte("\r\n\r\n"))
	if i < 0 {
		return "", nil, nil
	}
	lines := strings.Split(string(raw[:i]), "\r\n")
	line = lines[0]
	for _, l := range lines[1:] {
		if j := strings.Index(l, ":"); j > 0 {
			fields = append(fields, [2]string{http.CanonicalHeaderKey(strings.TrimSpace(l[:j])), strings.TrimSpace(l[j+1:])})
		}
	}
	return line, fields, raw[i+4:]
}

func valuesOf(fields [][2]string, name string) []string {
	var out []string
	for _, f := range fields {
		if f[0] == name {
			out = append(out, f[1])
		}
	}
	return out
}

// orderedBody is the inbound request body as the forwarder sees it. It does not change a byte; it fixes the order of
// two events that net/http leaves to the goroutine scheduler: the transport's last read of the body (after the
// declared length has been delivered it probes for more) and the start of the response. Default: the transport
// finishes with the request before the backend answers. late: the probe happens once the response has started to
// reach the client - by then the server in front of the proxy has closed the request body.
type orderedBody struct {
	rc              io.ReadCloser
	written         func()
	late            bool
	responseStarted func() bool
	giveUp          chan struct{}
	imposed         func()
	probed          func()
	sawEOF          bool
}

// in the late-probe order the backend sends the head and this much of the body, waits for the probe, and sends the
// rest; enough for the server in front of the proxy to have put the head on the wire
const lateProbeFirstPart = 20000

func (b *orderedBody) Read(p []byte) (int, error) {
	if b.sawEOF && b.late {
		for waited := false; !b.responseStarted(); waited = true {
			select {
			case <-b.giveUp:
				return b.rc.Read(p)
			default:
			}
			if !waited {
				b.imposed()
			}
			runtime.Gosched()
			time.Sleep(50 * time.Microsecond)
		}
	}
	late := b.sawEOF && b.late
	n, err := b.rc.Read(p)
	if err == io.EOF {
		b.sawEOF = true
	}
	if late {
		b.probed()
	}
	return n, err
}

func (b *orderedBody) Close() error {
	b.written()
	return b.rc.Close()
}

// eventDeadline is a context whose deadline expires when an event of the simulation happens.
type eventDeadline struct {
	context.Context
	done chan struct{}
	at   time.Time
}

func (c *eventDeadline) Deadline() (time.Time, bool) { return c.at, true }
func (c *eventDeadline) Done() <-chan struct{}       { return c.done }
func (c *eventDeadline) Err() error {
	select {
	case <-c.done:
		return context.DeadlineExceeded
	default:
		return c.Context.Err()
	}
}

type roundTripFunc func(*http.Request) (*http.Response, error)

func (f roundTripFunc) RoundTrip(r *http.Request) (*http.Response, error) { return f(r) }
