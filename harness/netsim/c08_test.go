package netsim

import (
	"fmt"
	"net"
	"net/http"
	"os"
	"strings"
	"testing"

	"github.com/vulcand/oxy/v2/zzverif/simkit"
	"pgregory.net/rapid"
)

func TestC08(t *testing.T) {
	simkit.Main(t, "C08", components, c08prop)
}

var hopByHop = map[string]bool{"Connection": true, "Keep-Alive": true, "Proxy-Authenticate": true, "Proxy-Authorization": true, "Te": true, "Trailer": true, "Trailers": true,
	"Transfer-Encoding": true, "Upgrade": true, "Proxy-Connection": true}

var forwardingHeaders = map[string]bool{"X-Forwarded-Proto": true, "X-Forwarded-For": true, "X-Forwarded-Host": true, "X-Forwarded-Port": true, "X-Forwarded-Server": true, "X-Real-Ip": true}

type hdr struct{ name, value string }

func c08prop(r *simkit.Run) {
	rt := r.T
	// ---- request target ----
	segs := []string{"/", "/a", "/a%2Fb", "/a%2fb", "/a%20b", "/%C3%A9t%C3%A9", "/x;y=1;z", "/a+b", "/a//b", "//a", "/a/./b", "/a/../b", "/%7Euser", "/a%25b", "/a:b@c", "/a'(b)*!", "/%E2%9C%93"}
	path := rapid.SampledFrom(segs).Draw(rt, "path")
	if rapid.Bool().Draw(rt, "two-segments") {
		path += rapid.SampledFrom(segs).Draw(rt, "path2")
	}
	query := rapid.SampledFrom([]string{"", "", "?x=1", "?a=1;b=2", "?q=a+b", "?q=%2F%20%2f", "?e=", "?x=1&x=2", "?u=http://h/p?x", "?%C3%A9=%E2%9C%93", "?a=b|c"}).Draw(rt, "query")
	target := path + query
	method := rapid.SampledFrom([]string{"GET", "GET", "POST", "DELETE"}).Draw(rt, "method")
	host := rapid.SampledFrom([]string{"example.com", "example.com:8080", "[::1]:8443", "EXAMPLE.com"}).Draw(rt, "host")
	peer := rapid.SampledFrom([]string{"192.0.2.7:5555", "[2001:db8::1]:443", "[fe80::1%eth0]:1234", "[fe80::d806:a55d%vEthernet]:64692"}).Draw(rt, "peer")
	tlsOn := rapid.Bool().Draw(rt, "tls")
	passHost := rapid.Bool().Draw(rt, "pass-host")

	// ---- client headers ----
	var hs []hdr
	add := func(n, v string) { hs = append(hs, hdr{n, v}) }
	if rapid.Bool().Draw(rt, "h-custom") {
		add("X-Custom", "one")
		add("x-custom", "two, three")
		add("X-Custom", "one")
	}
	if rapid.Bool().Draw(rt, "h-accept") {
		add("Accept", "text/html, */*;q=0.8")
	}
	if rapid.Bool().Draw(rt, "h-cookie") {
		add("Cookie", "a=1; b=2")
	}
	if rapid.Bool().Draw(rt, "h-auth") {
		add("Authorization", "Basic dTpw")
	}
	if rapid.Bool().Draw(rt, "h-empty") {
		add("X-Empty", "")
	}
	if rapid.Bool().Draw(rt, "h-ua") {
		add("User-Agent", "sim/1.0")
	}
	if rapid.Bool().Draw(rt, "h-ae") {
		add("Accept-Encoding", "br")
	}
	named := map[string]bool{} // header names listed in Connection
	if rapid.Bool().Draw(rt, "h-keepalive") {
		add("Keep-Alive", "timeout=5")
	}
	if rapid.Bool().Draw(rt, "h-proxy-auth") {
		add("Proxy-Authorization", "Basic eDp5")
	}
	if rapid.Bool().Draw(rt, "h-te") {
		add("TE", "gzip")
	}
	upgradeTo := ""
	if rapid.Bool().Draw(rt, "h-upgrade") {
		upgradeTo = rapid.SampledFrom([]string{"h2c", "websocket", "WebSocket"}).Draw(rt, "upgrade-to")
		add("Upgrade", upgradeTo)
	}
	upgradeAsked := false // a protocol-upgrade handshake: Upgrade plus the "upgrade" token in Connection
	if rapid.Bool().Draw(rt, "h-connection") {
		toks := []string{}
		if upgradeTo != "" && rapid.Bool().Draw(rt, "c-upgrade") {
			// The handshake of a protocol upgrade (which the backend here declines by answering in plain HTTP). Go's
			// reverse proxy hands these two fields on by design - they are how the next hop learns of the offer; every
			// other clause holds for such a request as for any other: it still arrived over http or https.
			toks = append(toks, rapid.SampledFrom([]string{"Upgrade", "upgrade"}).Draw(rt, "c-upgrade-spelling"))
			upgradeAsked = true
		}
		if rapid.Bool().Draw(rt, "c-keepalive") {
			toks = append(toks, "keep-alive")
		}
		if rapid.Bool().Draw(rt, "c-named") {
			toks = append(toks, "X-Hop-Named")
			named["X-Hop-Named"] = true
			add("X-Hop-Named", "secret")
		}
		if rapid.Bool().Draw(rt, "c-named-fwd") {
			n := rapid.SampledFrom([]string{"X-Forwarded-Host", "X-Real-Ip", "X-Forwarded-Proto"}).Draw(rt, "c-fwd-name")
			toks = append(toks, n)
			named[n] = true
		}
		if len(toks) > 0 {
			add("Connection", strings.Join(toks, ", "))
		}
	}
	supplied := map[string]string{}
	for _, n := range []string{"X-Forwarded-Proto", "X-Forwarded-Host", "X-Forwarded-Port", "X-Forwarded-Server", "X-Real-Ip", "X-Forwarded-For"} {
		if rapid.IntRange(0, 3).Draw(rt, "supplied-"+n) == 0 {
			v := map[string]string{"X-Forwarded-Proto": rapid.SampledFrom([]string{"https", "http", "wss"}).Draw(rt, "xfp"), "X-Forwarded-Host": "front.example.org", "X-Forwarded-Port": "8443",
				"X-Forwarded-Server": "edge-1", "X-Real-Ip": "203.0.113.9", "X-Forwarded-For": "203.0.113.9, 198.51.100.2"}[n]
			if n == "X-Forwarded-For" {
				// an upstream proxy may also send the field with nothing in it, or with a token instead of an address
				v = rapid.SampledFrom([]string{v, v, "203.0.113.9", "", "unknown", "_hidden, 198.51.100.2"}).Draw(rt, "xff-value")
			}
			supplied[n] = v
			add(n, v)
		}
	}
	body := ""
	if method == "POST" {
		body = rapid.SampledFrom([]string{"", "x", "hello world"}).Draw(rt, "body")
	}
	var raw strings.Builder
	fmt.Fprintf(&raw, "%s %s HTTP/1.1\r\nHost: %s\r\n", method, target, host)
	for _, h := range hs {
		fmt.Fprintf(&raw, "%s: %s\r\n", h.name, h.value)
	}
	if method == "POST" {
		fmt.Fprintf(&raw, "Content-Length: %d\r\n", len(body))
	}
	raw.WriteString("\r\n" + body)

	// ---- backend response ----
	var resp strings.Builder
	resp.WriteString("HTTP/1.1 200 OK\r\nContent-Type: text/plain\r\nX-Resp: a\r\nX-Resp: b, c\r\nSet-Cookie: s=1\r\nSet-Cookie: t=2; Path=/\r\n")
	respHop := map[string]bool{}
	if rapid.Bool().Draw(rt, "r-keepalive") {
		resp.WriteString("Keep-Alive: timeout=9\r\n")
	}
	if rapid.Bool().Draw(rt, "r-proxy-auth") {
		resp.WriteString("Proxy-Authenticate: Basic realm=x\r\n")
	}
	if rapid.Bool().Draw(rt, "r-connection-named") {
		resp.WriteString("Connection: X-Resp-Hop\r\nX-Resp-Hop: secret\r\n")
		respHop["X-Resp-Hop"] = true
	}
	if rapid.Bool().Draw(rt, "r-upgrade") {
		resp.WriteString("Upgrade: h2c\r\n")
	}
	rbody := rapid.SampledFrom([]string{"", "ok", "0123456789"}).Draw(rt, "resp-body")
	fmt.Fprintf(&resp, "Content-Length: %d\r\n\r\n%s", len(rbody), rbody)

	res := runExchange(exchangeSpec{rawRequest: []byte(raw.String()), peerAddr: peer, tlsOn: tlsOn, passHost: passHost, backendURLExtras: rapid.IntRange(0, 2).Draw(rt, "backend-url-with-path-and-query") == 0,
		neighbour: rapid.SampledFrom([]int{0, 0, 1, 2}).Draw(rt, "neighbour-forwarder"),
		plan:      backendPlan{response: []byte(resp.String()), cutAt: -1}})
	ctxt := fmt.Sprintf("[request %q from %s tls=%v passHost=%v]", raw.String(), peer, tlsOn, passHost)
	if res.hung != "" {
		r.Fail("hang", "%s %s", res.hung, ctxt)
	}
	if res.clientErr != nil || res.status != 200 {
		r.Fail("unexpected-answer", "client got status %d err %v, backend received %q %s", res.status, res.clientErr, res.backendReq, ctxt)
	}
	line, fields, gotBody := parseHead(res.backendReq)
	if line != method+" "+target+" HTTP/1.1" {
		r.Fail("request-line", "backend received %q, the client sent %q %s", line, method+" "+target+" HTTP/1.1", ctxt)
	}
	if string(gotBody) != body {
		r.Fail("body", "backend received body %q, client sent %q %s", gotBody, body, ctxt)
	}
	// Host
	wantHost := backendHost
	if passHost {
		wantHost = host
	}
	if hv := valuesOf(fields, "Host"); len(hv) != 1 || hv[0] != wantHost {
		r.Fail("host", "backend received Host %v, expected %q %s", hv, wantHost, ctxt)
	}
	// hop-by-hop hygiene and end-to-end preservation (request direction)
	want := map[string][]string{}
	for _, h := range hs {
		want[http.CanonicalHeaderKey(h.name)] = append(want[http.CanonicalHeaderKey(h.name)], h.value)
	}
	for _, f := range fields {
		if upgradeAsked && (f[0] == "Connection" && strings.EqualFold(f[1], "upgrade") || f[0] == "Upgrade" && f[1] == upgradeTo) {
			continue
		}
		if hopByHop[f[0]] && !(f[0] == "Transfer-Encoding" || f[0] == "Connection" && strings.EqualFold(f[1], "close")) {
			r.Fail("hop-by-hop-forwarded", "backend received hop-by-hop header %s: %s %s", f[0], f[1], ctxt)
		}
		if named[f[0]] && !forwardingHeaders[f[0]] {
			r.Fail("hop-by-hop-forwarded", "backend received %s, which the client named in Connection %s", f[0], ctxt)
		}
	}
	for name, vals := range want {
		if hopByHop[name] || named[name] || forwardingHeaders[name] {
			continue
		}
		if got := valuesOf(fields, name); strings.Join(got, "\x00") != strings.Join(vals, "\x00") {
			r.Fail("end-to-end-header", "client sent %s = %q, backend received %q %s", name, vals, got, ctxt)
		}
	}
	// forwarding headers
	peerIP, _, _ := net.SplitHostPort(peer)
	peerNoZone := strings.Split(peerIP, "%")[0]
	expectOne := func(name string, ok func(v string) bool, what string) {
		if named[name] {
			return // the client itself declared it hop-by-hop: either outcome is defensible
		}
		got := valuesOf(fields, name)
		if len(got) != 1 || !ok(got[0]) {
			r.Fail("forwarding-header", "backend received %s = %q, expected %s %s", name, got, what, ctxt)
		}
	}
	is := func(s ...string) func(string) bool {
		return func(v string) bool {
			for _, x := range s {
				if v == x {
					return true
				}
			}
			return false
		}
	}
	if v, ok := supplied["X-Forwarded-Proto"]; ok {
		expectOne("X-Forwarded-Proto", is(v), "the supplied "+v)
	} else if tlsOn {
		expectOne("X-Forwarded-Proto", is("https"), "https")
	} else {
		expectOne("X-Forwarded-Proto", is("http"), "http")
	}
	if v, ok := supplied["X-Forwarded-Host"]; ok {
		expectOne("X-Forwarded-Host", is(v), "the supplied "+v)
	} else {
		expectOne("X-Forwarded-Host", is(host), host)
	}
	if v, ok := supplied["X-Forwarded-Port"]; ok {
		expectOne("X-Forwarded-Port", is(v), "the supplied "+v)
	} else if _, p, err := net.SplitHostPort(host); err == nil {
		expectOne("X-Forwarded-Port", is(p), p)
	} else {
		secureByProto := supplied["X-Forwarded-Proto"] == "https" || supplied["X-Forwarded-Proto"] == "wss"
		switch {
		case tlsOn:
			// the port header was not supplied, so it describes the incoming connection, which is TLS -
			// whatever protocol an upstream proxy claimed for its own hop
			expectOne("X-Forwarded-Port", is("443"), "443")
		case !tlsOn && !secureByProto:
			expectOne("X-Forwarded-Port", is("80"), "80")
		default:
			expectOne("X-Forwarded-Port", is("80", "443"), "80 or 443")
		}
	}
	if v, ok := supplied["X-Real-Ip"]; ok {
		expectOne("X-Real-Ip", is(v), "the supplied "+v)
	} else {
		expectOne("X-Real-Ip", is(peerIP, peerNoZone), peerNoZone)
	}
	hn, _ := os.Hostname()
	if v, ok := supplied["X-Forwarded-Server"]; ok {
		expectOne("X-Forwarded-Server", is(v, hn), "the supplied "+v+" or this proxy's host name")
	} else {
		expectOne("X-Forwarded-Server", is(hn), hn)
	}
	xff := strings.Join(valuesOf(fields, "X-Forwarded-For"), ", ")
	parts := strings.Split(xff, ",")
	last := strings.TrimSpace(parts[len(parts)-1])
	if last != peerIP && last != peerNoZone {
		r.Fail("forwarding-header", "X-Forwarded-For at the backend is %q, it must end with the peer address %s %s", xff, peerIP, ctxt)
	}
	if v, ok := supplied["X-Forwarded-For"]; ok && !strings.HasPrefix(xff, v) {
		r.Fail("forwarding-header", "X-Forwarded-For at the backend is %q, the supplied chain %q was lost %s", xff, v, ctxt)
	}
	// response direction
	for name := range res.header {
		if (hopByHop[name] && name != "Transfer-Encoding") || respHop[name] {
			r.Fail("hop-by-hop-forwarded", "client received hop-by-hop response header %s: %v %s", name, res.header[name], ctxt)
		}
	}
	if strings.Join(res.header["X-Resp"], "|") != "a|b, c" || strings.Join(res.header["Set-Cookie"], "|") != "s=1|t=2; Path=/" || res.header.Get("Content-Type") != "text/plain" {
		r.Fail("end-to-end-header", "client received response headers %v %s", res.header, ctxt)
	}
	if string(res.body) != rbody {
		r.Fail("body", "client received body %q, backend sent %q %s", res.body, rbody, ctxt)
	}
	if len(res.events) != 2 || res.events[0].state != 0 || res.events[1].state != 1 {
		r.Fail("listener", "connection-state notifications %v %s", res.events, ctxt)
	}
	h := simkit.NewHash()
	h.Str(string(res.backendReq))
	for _, l := range strings.Split(res.rawHead, "\r\n") {
		if !strings.HasPrefix(l, "Date:") { // the server in front of the proxy stamps the wall-clock second
			h.Str(l)
		}
	}
	r.SetDigest(uint64(h))
	if len(hs) >= 2 {
		r.Nontrivial()
	}
	if strings.Contains(peer, "%") {
		r.Probe("peer-ipv6-zone")
	}
	if len(named) > 0 {
		r.Probe("connection-named-header")
	}
	if len(supplied) > 0 {
		r.Probe("upstream-supplied-forwarding-headers")
	}
	if strings.Contains(target, "%2F") || strings.Contains(target, "%2f") {
		r.Probe("escaped-slash")
	}
	r.Sample(func() any {
		return map[string]any{"request": raw.String(), "peer": peer, "tls": tlsOn, "pass_host": passHost, "backend_received": string(res.backendReq), "client_received_head": res.rawHead}
	})
}
