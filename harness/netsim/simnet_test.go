package netsim

import (
	"errors"
	"io"
	"net"
	"os"
	"sync"
	"syscall"
	"time"
)

// In-memory transport: buffered full-duplex connections with working
// deadlines, arbitrary address strings, close and reset. Faults are tied to
// stream positions by the scripted peers that use these connections, never to
// wall-clock time.

type addr string

func (a addr) Network() string { return "tcp" }
func (a addr) String() string  { return string(a) }

type half struct {
	mu       sync.Mutex
	cond     *sync.Cond
	buf      []byte
	eof      bool // writer closed: EOF once drained
	reset    bool // connection reset by the writer's side: error at once
	gone     bool // reader closed: writes fail
	deadline time.Time
	timer    *time.Timer
	total    int // bytes ever written
	// window > 0: at most that many bytes may sit unread; a writer waits for the reader beyond it (the peer's
	// receive window is full), as a proxy does whose client reads slowly
	window int
}

func newHalf() *half {
	h := &half{}
	h.cond = sync.NewCond(&h.mu)
	return h
}

type memConn struct {
	r, w          *half
	local, remote addr
	once          sync.Once
}

// connPair returns the two ends; a is the dialing side.
func connPair(aAddr, bAddr string) (*memConn, *memConn) {
	ab, ba := newHalf(), newHalf()
	a := &memConn{r: ba, w: ab, local: addr(aAddr), remote: addr(bAddr)}
	b := &memConn{r: ab, w: ba, local: addr(bAddr), remote: addr(aAddr)}
	return a, b
}

type timeoutError struct{}

func (timeoutError) Error() string   { return "i/o timeout" }
func (timeoutError) Timeout() bool   { return true }
func (timeoutError) Temporary() bool { return true }
func (timeoutError) Is(err error) bool {
	return err == os.ErrDeadlineExceeded
}

func (c *memConn) opErr(op string, err error) error {
	return &net.OpError{Op: op, Net: "tcp", Source: c.local, Addr: c.remote, Err: err}
}

func (c *memConn) Read(p []byte) (int, error) {
	h := c.r
	h.mu.Lock()
	defer h.mu.Unlock()
	for {
		// what was written before the reset is delivered first: the position of the fault in the
		// stream, not the reader's timing, decides what the reader sees
		if len(h.buf) > 0 {
			n := copy(p, h.buf)
			h.buf = h.buf[n:]
			if h.window > 0 {
				h.cond.Broadcast()
			}
			return n, nil
		}
		if h.reset {
			return 0, c.opErr("read", os.NewSyscallError("read", syscall.ECONNRESET))
		}
		if h.gone {
			return 0, c.opErr("read", net.ErrClosed)
		}
		if h.eof {
			return 0, io.EOF
		}
		if !h.deadline.IsZero() && !time.Now().Before(h.deadline) {
			return 0, c.opErr("read", timeoutError{})
		}
		h.cond.Wait()
	}
}

func (c *memConn) Write(p []byte) (int, error) {
	h := c.w
	h.mu.Lock()
	defer h.mu.Unlock()
	if h.eof || h.reset {
		return 0, c.opErr("write", net.ErrClosed)
	}
	if h.gone {
		return 0, c.opErr("write", os.NewSyscallError("write", syscall.EPIPE))
	}
	if h.window > 0 {
		done := 0
		for done < len(p) {
			for len(h.buf) >= h.window && !h.gone && !h.eof && !h.reset {
				h.cond.Wait()
			}
			if h.eof || h.reset {
				return done, c.opErr("write", net.ErrClosed)
			}
			if h.gone {
				return done, c.opErr("write", os.NewSyscallError("write", syscall.EPIPE))
			}
			k := h.window - len(h.buf)
			if k > len(p)-done {
				k = len(p) - done
			}
			h.buf = append(h.buf, p[done:done+k]...)
			h.total += k
			done += k
			h.cond.Broadcast()
		}
		return done, nil
	}
	h.buf = append(h.buf, p...)
	h.total += len(p)
	h.cond.Broadcast()
	return len(p), nil
}

// Close: the peer reads EOF after draining what was written; the peer's writes fail.
func (c *memConn) Close() error {
	c.once.Do(func() {
		c.w.mu.Lock()
		c.w.eof = true
		c.w.cond.Broadcast()
		c.w.mu.Unlock()
		c.r.mu.Lock()
		c.r.gone = true
		c.r.buf = nil
		c.r.cond.Broadcast()
		c.r.mu.Unlock()
	})
	return nil
}

// Reset: the peer reads what was written so far and then fails with ECONNRESET.
func (c *memConn) Reset() {
	c.once.Do(func() {
		c.w.mu.Lock()
		c.w.reset = true
		c.w.cond.Broadcast()
		c.w.mu.Unlock()
		c.r.mu.Lock()
		c.r.gone = true
		c.r.buf = nil
		c.r.cond.Broadcast()
		c.r.mu.Unlock()
	})
}

func (c *memConn) LocalAddr() net.Addr  { return c.local }
func (c *memConn) RemoteAddr() net.Addr { return c.remote }

func (c *memConn) SetDeadline(t time.Time) error {
	_ = c.SetReadDeadline(t)
	return nil
}

func (c *memConn) SetReadDeadline(t time.Time) error {
	h := c.r
	h.mu.Lock()
	defer h.mu.Unlock()
	h.deadline = t
	if h.timer != nil {
		h.timer.Stop()
		h.timer = nil
	}
	if !t.IsZero() {
		d := time.Until(t)
		if d <= 0 {
			h.cond.Broadcast()
		} else {
			h.timer = time.AfterFunc(d, func() {
				h.mu.Lock()
				h.cond.Broadcast()
				h.mu.Unlock()
			})
		}
	}
	return nil
}

func (c *memConn) SetWriteDeadline(time.Time) error { return nil }

// readable reports how many bytes were ever written towards this end
func (c *memConn) received() int {
	c.r.mu.Lock()
	defer c.r.mu.Unlock()
	return c.r.total
}

type memListener struct {
	ch     chan net.Conn
	closed chan struct{}
	once   sync.Once
	a      addr
}

func newListener(a string) *memListener {
	return &memListener{ch: make(chan net.Conn, 16), closed: make(chan struct{}), a: addr(a)}
}

func (l *memListener) Accept() (net.Conn, error) {
	select {
	case c := <-l.ch:
		return c, nil
	case <-l.closed:
		return nil, net.ErrClosed
	}
}

func (l *memListener) Close() error {
	l.once.Do(func() { close(l.closed) })
	return nil
}

func (l *memListener) Addr() net.Addr { return l.a }

// dial connects a new connection from `from` to the listener.
func (l *memListener) dial(from string) (*memConn, error) {
	a, b := connPair(from, string(l.a))
	select {
	case l.ch <- b:
		return a, nil
	case <-l.closed:
		return nil, errors.New("listener closed")
	}
}
