package netsim

import (
	"bytes"
	"fmt"
	"os"
	"strings"
	"testing"
	"time"

	"github.com/vulcand/oxy/v2/zzverif/simkit"
	"pgregory.net/rapid"
)

func TestC16(t *testing.T) {
	simkit.Main(t, "C16", components, c16prop)
}

func respByte(i int) byte { return byte('a' + i%26) }

// buildResponse renders the backend's response; returns bytes, head length and the body payload
func buildResponse(status int, hdrs [][2]string, body []byte, chunked bool, chunkSizes []int) ([]byte, int) {
	var b bytes.Buffer
	fmt.Fprintf(&b, "HTTP/1.1 %d %s\r\n", status, "Status")
	for _, h := range hdrs {
		fmt.Fprintf(&b, "%s: %s\r\n", h[0], h[1])
	}
	if chunked {
		b.WriteString("Transfer-Encoding: chunked\r\n\r\n")
		head := b.Len()
		rest := body
		for i := 0; len(rest) > 0; i++ {
			n := len(rest)
			if len(chunkSizes) > 0 {
				if c := chunkSizes[i%len(chunkSizes)]; c < n {
					n = c
				}
			}
			fmt.Fprintf(&b, "%x\r\n", n)
			b.Write(rest[:n])
			b.WriteString("\r\n")
			rest = rest[n:]
		}
		b.WriteString("0\r\n\r\n")
		return b.Bytes(), head
	}
	fmt.Fprintf(&b, "Content-Length: %d\r\n\r\n", len(body))
	head := b.Len()
	b.Write(body)
	return b.Bytes(), head
}

func c16prop(r *simkit.Run) {
	rt := r.T
	status := rapid.SampledFrom([]int{200, 200, 201, 206, 301, 404, 418, 500, 502, 503, 504, 599}).Draw(rt, "status")
	var hdrs [][2]string
	if rapid.Bool().Draw(rt, "h-ct") {
		hdrs = append(hdrs, [2]string{"Content-Type", "application/octet-stream"})
	}
	if rapid.Bool().Draw(rt, "h-multi") {
		hdrs = append(hdrs, [2]string{"X-Multi", "one"}, [2]string{"X-Multi", "two"})
	}
	if rapid.Bool().Draw(rt, "h-cookie") {
		hdrs = append(hdrs, [2]string{"Set-Cookie", "a=b; Path=/"})
	}
	if rapid.Bool().Draw(rt, "h-loc") {
		hdrs = append(hdrs, [2]string{"Location", "http://elsewhere/x?y=%2F"})
	}
	var n int
	switch rapid.IntRange(0, 5).Draw(rt, "body-scale") {
	case 0:
		n = 0
	case 1:
		n = rapid.IntRange(1, 64).Draw(rt, "body-n")
	case 2, 3:
		n = rapid.IntRange(64, 70000).Draw(rt, "body-n")
	case 4:
		n = rapid.SampledFrom([]int{4095, 4096, 4097, 32768, 65536}).Draw(rt, "body-n")
	default:
		n = rapid.IntRange(70000, 300000).Draw(rt, "body-n")
		if simkit.Thorough() && rapid.IntRange(0, 5).Draw(rt, "mb") == 0 {
			n = rapid.IntRange(1<<20, 4<<20).Draw(rt, "body-mb")
		}
	}
	body := make([]byte, n)
	for i := range body {
		body[i] = respByte(i)
	}
	chunked := rapid.Bool().Draw(rt, "chunked")
	var chunkSizes []int
	for i, k := 0, rapid.IntRange(0, 3).Draw(rt, "chunks"); i < k; i++ {
		chunkSizes = append(chunkSizes, rapid.SampledFrom([]int{1, 7, 512, 4096, 40000}).Draw(rt, "chunk"))
	}
	respBytes, headLen := buildResponse(status, hdrs, body, chunked, chunkSizes)

	fault := "none"
	if rapid.IntRange(0, 2).Draw(rt, "fault?") > 0 {
		fault = rapid.SampledFrom([]string{"refused", "dial-timeout", "dial-no-descriptors", "dial-dns-servfail", "dial-dns-notfound", "close-before-head", "reset-before-head", "close-in-head", "reset-in-head", "garbage-head",
			"close-in-body", "reset-in-body", "header-timeout", "deadline-timeout", "client-gone-before-response", "client-gone-mid-body"}).Draw(rt, "fault")
	}
	if fault == "client-gone-mid-body" {
		// needs a long fixed-length body (see below)
		if n < 20000 {
			n = 20000 + rapid.IntRange(0, 50000).Draw(rt, "body-n-long")
			body = make([]byte, n)
			for i := range body {
				body[i] = respByte(i)
			}
		}
		chunked = false
		respBytes, headLen = buildResponse(status, hdrs, body, chunked, chunkSizes)
	}
	// the request: mostly a bare GET, sometimes a POST whose body (fixed length or chunked) must reach the backend unchanged
	rawReq := "GET /res?x=1 HTTP/1.1\r\nHost: example.com\r\n\r\n"
	var reqBody []byte
	if rapid.IntRange(0, 3).Draw(rt, "post") == 0 {
		reqBody = make([]byte, rapid.SampledFrom([]int{0, 1, 100, 5000, 70000}).Draw(rt, "req-body-n"))
		for i := range reqBody {
			reqBody[i] = byte('A' + i%23)
		}
		if rapid.Bool().Draw(rt, "req-chunked") {
			var b bytes.Buffer
			b.WriteString("POST /res?x=1 HTTP/1.1\r\nHost: example.com\r\nTransfer-Encoding: chunked\r\n\r\n")
			for rest := reqBody; len(rest) > 0; {
				n := len(rest)
				if n > 4000 {
					n = 4000
				}
				fmt.Fprintf(&b, "%x\r\n", n)
				b.Write(rest[:n])
				b.WriteString("\r\n")
				rest = rest[n:]
			}
			b.WriteString("0\r\n\r\n")
			rawReq = b.String()
		} else {
			rawReq = fmt.Sprintf("POST /res?x=1 HTTP/1.1\r\nHost: example.com\r\nContent-Length: %d\r\n\r\n%s", len(reqBody), reqBody)
		}
	}
	// request targets other than the usual origin form, as a server accepts them from the wire: for these only the
	// last clause is judged (a response or a closed connection, never a hang or a crash of the proxy)
	oddTarget := ""
	if fault == "none" && reqBody == nil && rapid.IntRange(0, 7).Draw(rt, "odd-target") == 0 {
		oddTarget = rapid.SampledFrom([]string{"CONNECT 192.0.2.9:8443 HTTP/1.1\r\nHost: 192.0.2.9:8443\r\n\r\n", "CONNECT example.com:443 HTTP/1.1\r\nHost: example.com:443\r\n\r\n",
			"GET http://example.com/res?x=1 HTTP/1.1\r\nHost: example.com\r\n\r\n", "GET //res HTTP/1.1\r\nHost: example.com\r\n\r\n"}).Draw(rt, "target-form")
		rawReq = oddTarget
	}
	spec := exchangeSpec{rawRequest: []byte(rawReq), peerAddr: "192.0.2.7:5555", passHost: rapid.Bool().Draw(rt, "pass-host"),
		neighbour: rapid.SampledFrom([]int{0, 0, 0, 1, 2}).Draw(rt, "neighbour-forwarder"),
		plan:      backendPlan{response: respBytes, headLen: headLen, cutAt: -1}}
	// only with a backend that answers completely: when the round trip fails the transport waits for its writer
	// before it reports the failure, so "the probe after the start of the response" is not a possible order then
	if len(reqBody) > 0 && fault == "none" && len(respBytes)-headLen >= 2*lateProbeFirstPart {
		spec.lateProbe = rapid.IntRange(0, 2).Draw(rt, "late-probe") == 0
	}
	bodyWire := len(respBytes) - headLen
	switch fault {
	case "refused":
		spec.plan.dial = "refused"
	case "dial-timeout":
		spec.plan.dial = "timeout"
	case "dial-no-descriptors", "dial-dns-servfail", "dial-dns-notfound":
		spec.plan.dial = strings.TrimPrefix(fault, "dial-")
	case "close-before-head":
		spec.plan.cutAt, spec.plan.then = 0, "close"
	case "reset-before-head":
		spec.plan.cutAt, spec.plan.then = 0, "reset"
	case "close-in-head", "reset-in-head":
		spec.plan.cutAt = rapid.IntRange(1, headLen-1).Draw(rt, "cut-head")
		spec.plan.then = strings.SplitN(fault, "-", 2)[0]
	case "garbage-head":
		g := rapid.SampledFrom([]string{"NOT HTTP AT ALL\r\n\r\n", "HTTP/1.1 abc OK\r\n\r\n", "\x00\x01\x02\r\n\r\n", "HTTP/1.1 200 OK\r\nBroken Header Line\r\n\r\n"}).Draw(rt, "garbage")
		spec.plan.response, spec.plan.cutAt, spec.plan.then = []byte(g), -1, "close"
	case "close-in-body", "reset-in-body", "client-gone-mid-body":
		if bodyWire < 2 {
			fault = "none"
			break
		}
		spec.plan.cutAt = headLen + rapid.IntRange(0, bodyWire-1).Draw(rt, "cut-body")
		if fault == "client-gone-mid-body" {
			spec.plan.cutAt = headLen + rapid.IntRange(16384, bodyWire-1).Draw(rt, "cut-body-long")
		}
		switch fault {
		case "close-in-body":
			spec.plan.then = "close"
		case "reset-in-body":
			spec.plan.then = "reset"
		default:
			// the backend has sent the head and part of the body and stalls; the client reads a little and goes away
			// the server in front of the proxy only puts the head on the wire once a few KiB of body have passed:
			// the stalled prefix must be long enough for the client to have something to read (causal, not timed)
			if spec.plan.cutAt-headLen < 16384 || chunked {
				fault = "none"
				spec.plan.cutAt = -1
				break
			}
			spec.plan.then = "stall"
			spec.clientCloseAfterBody = rapid.IntRange(1, 4096).Draw(rt, "client-reads")
		}
	case "header-timeout":
		spec.plan.cutAt, spec.plan.then = 0, "stall"
		spec.headerTimeout = 25 * time.Millisecond
	case "deadline-timeout":
		// the backend's time is limited by a deadline on the request context (a timeout middleware in front), the backend stays silent
		spec.plan.cutAt, spec.plan.then = 0, "stall"
		spec.ctxTimeout = 25 * time.Millisecond
	case "client-gone-before-response":
		spec.plan.cutAt, spec.plan.then = 0, "stall"
		spec.clientCloseWhenBackendHasRequest = true
	}
	if fault == "none" && oddTarget == "" && !spec.lateProbe && rapid.IntRange(0, 15).Draw(rt, "listener-breaks-on-disconnect") == 0 {
		spec.listenerBreaksOnDisconnect = true
	}
	if fault == "none" && oddTarget == "" && !spec.lateProbe && !spec.listenerBreaksOnDisconnect && rapid.IntRange(0, 15).Draw(rt, "handler-ends-its-goroutine") == 0 {
		spec.goroutineExits = rapid.IntRange(1, 2).Draw(rt, "goroutine-exits-when")
	}
	// By draw the client of a fault-free exchange is a slow one, and while the proxy waits for it with response bytes in
	// hand, another client is served a long response of its own through a forwarder of its own, start to end.
	var res exchangeResult
	if fault == "none" && oddTarget == "" && !spec.lateProbe && !spec.listenerBreaksOnDisconnect && spec.goroutineExits == 0 && n >= 60000 && rapid.IntRange(0, 2).Draw(rt, "slow-client-and-a-second-exchange") == 0 {
		sc := &slowClient{window: 2048, readFirst: rapid.IntRange(1, 3000).Draw(rt, "slow-client-reads-first"), paused: make(chan struct{}), resume: make(chan struct{})}
		spec.slow = sc
		obody := bytes.Repeat([]byte("#"), 100000)
		oresp, _ := buildResponse(200, nil, obody, false, nil)
		done := make(chan exchangeResult, 1)
		go func() { done <- runExchange(spec) }()
		select {
		case <-sc.paused:
			other := runExchange(exchangeSpec{rawRequest: []byte("GET /other HTTP/1.1\r\nHost: example.com\r\n\r\n"), peerAddr: "192.0.2.8:6666", plan: backendPlan{response: oresp, cutAt: -1}})
			if other.hung != "" || other.status != 200 || !bytes.Equal(other.body, obody) {
				r.Fail("body", "a second client, served while the first one's proxy waited for its slow reader, got status %d, %d body bytes (sent %d, first difference at %d) %s", other.status, len(other.body), len(obody), firstDiff(other.body, obody), other.hung)
			}
			r.Fault("slow-client-overlapped-by-a-second-exchange")
			close(sc.resume)
			res = <-done
		case res = <-done:
		}
	} else {
		res = runExchange(spec)
	}
	for i := 0; i < res.lateProbes; i++ {
		r.Fault("request-probe-after-response-start")
	}
	ctxt := fmt.Sprintf("[backend status %d, %d body bytes, chunked=%v, fault %s cut at %d of %d (head %d)]", status, n, chunked, fault, spec.plan.cutAt, len(respBytes), headLen)
	if res.hung != "" {
		r.Fail("hang", "%s %s", res.hung, ctxt)
	}
	if spec.listenerBreaksOnDisconnect {
		// the caller's own listener failed: the request is lost to its client with it. Judged: no hang, and the listener
		// was told 'connected' once and 'disconnected' once - the failed call is not made up for by a second one
		r.Fault("listener-callback-panic")
		conn, disc := 0, 0
		for _, e := range res.events {
			if e.state == 0 {
				conn++
			} else {
				disc++
			}
		}
		if conn != 1 || disc != 1 {
			r.Fail("listener-unpaired", "the listener, which panics when told 'disconnected', was told 'connected' %d times and 'disconnected' %d times for one forwarded request %s", conn, disc, ctxt)
		}
		r.Nontrivial()
		r.SetDigest(uint64(conn*10 + disc))
		return
	}
	if spec.goroutineExits != 0 {
		// the serving goroutine was ended from inside the chain (runtime.Goexit, as t.FailNow or a framework's abort
		// does): nothing propagates and recover() sees nothing, but deferred calls run - forwarding was ended, so the
		// listener is told 'disconnected', once, after the inner handler. What the client gets is the server's business.
		r.Fault("handler-ends-its-goroutine")
		conn, disc := 0, 0
		for _, e := range res.events {
			if e.state == 0 {
				conn++
			} else {
				disc++
			}
		}
		if conn != 1 || disc != 1 {
			r.Fail("listener-unpaired", "the handler behind the listener ended its goroutine (runtime.Goexit): the listener was told 'connected' %d times and 'disconnected' %d times for one forwarded request %s", conn, disc, ctxt)
		}
		if res.order != "connected,inner-start,inner-end,disconnected" {
			r.Fail("listener-order", "order of events around a forwarded request whose handler ended its goroutine: %s %s", res.order, ctxt)
		}
		r.Nontrivial()
		r.SetDigest(uint64(conn*10+disc) + 100*uint64(spec.goroutineExits))
		return
	}
	if strings.Contains(res.serverLog, "panic serving") {
		r.Fail("proxy-crash", "the proxy's handler panicked: %s %s", res.serverLog, ctxt)
	}
	// notifications are paired in every case
	conn, disc := 0, 0
	for i, e := range res.events {
		if e.state == 0 {
			conn++
		} else {
			disc++
		}
		if i == 0 && e.state != 0 {
			r.Fail("listener-order", "first notification is not 'connected': %v %s", res.events, ctxt)
		}
	}
	if res.order != "" && res.order != "connected,inner-start,inner-end,disconnected" {
		r.Fail("listener-order", "order of events around the forwarded request: %s (expected connected, inner handler start, inner handler end, disconnected) %s", res.order, ctxt)
	}
	if conn != 1 || disc != 1 {
		r.Fail("listener-unpaired", "%d 'connected' and %d 'disconnected' notifications for one forwarded request %s", conn, disc, ctxt)
	}
	// the listener is keyed by URL (it counts open forwardings per URL): the pair is about one URL,
	// also when the handler behind the listener re-targets the request to the backend (as it does here)
	if res.events[0].url != res.events[1].url {
		r.Fail("listener-unpaired-url", "'connected' was notified for %q, the 'disconnected' that follows it for %q %s", res.events[0].url, res.events[1].url, ctxt)
	}
	expectStatus := func(what string, ok ...int) {
		if res.clientErr != nil {
			r.Fail("no-answer", "%s: the client got no response (%v), proxy recorded %d %s", what, res.clientErr, res.recorded, ctxt)
		}
		for _, s := range ok {
			if res.status == s {
				return
			}
		}
		r.Fail("gateway-status", "%s: the client got %d, expected %v %s", what, res.status, ok, ctxt)
	}
	if reqBody != nil && fault != "refused" && !strings.HasPrefix(fault, "dial-") && res.backendReq != nil {
		if got := decodeBody(res.backendReq); !bytes.Equal(got, reqBody) {
			r.Fail("request-body", "the backend received a request body of %d bytes, the client sent %d (first difference at %d) %s", len(got), len(reqBody), firstDiff(got, reqBody), ctxt)
		}
	}
	switch fault {
	case "none":
		if oddTarget != "" {
			r.Probe("request-target-not-in-origin-form")
			if res.clientErr != nil && res.status == 0 && !strings.Contains(fmt.Sprint(res.clientErr), "EOF") {
				r.Fail("no-answer", "request %q: the client got neither a response nor a closed connection (%v) %s", strings.SplitN(oddTarget, "\r\n", 2)[0], res.clientErr, ctxt)
			}
			break
		}
		expectStatus("fault-free relay", status)
		for _, h := range hdrs {
			found := false
			for _, v := range res.header[h[0]] {
				if v == h[1] {
					found = true
				}
			}
			if !found {
				r.Fail("relay-headers", "backend header %s: %s missing at the client (%v) %s", h[0], h[1], res.header, ctxt)
			}
		}
		if res.bodyErr != nil || !bytes.Equal(res.body, body) {
			r.Fail("relay-body", "client read %d bytes (err %v), backend sent %d; first difference at %d %s [proxy recorded %d, handler returned=%v, late probes %d, server log %q]", len(res.body), res.bodyErr, len(body), firstDiff(res.body, body), ctxt, res.recorded, res.handlerDone, res.lateProbes, res.serverLog)
		}
	case "refused", "close-before-head", "reset-before-head", "dial-no-descriptors", "dial-dns-servfail", "dial-dns-notfound":
		// whatever keeps the proxy from reaching the backend, as long as nothing timed out
		expectStatus("backend unreachable or failed before responding", 502)
		r.Fault(fault)
	case "dial-timeout":
		expectStatus("dial timed out", 502, 504)
		r.Fault(fault)
	case "header-timeout", "deadline-timeout":
		expectStatus("backend response timeout", 504)
		r.Fault(fault)
	case "close-in-head", "reset-in-head", "garbage-head":
		expectStatus("malformed or truncated response head", 502, 500)
		r.Fault(fault)
	case "client-gone-before-response":
		if res.recorded != 499 {
			r.Fail("client-gone-status", "the client went away while the backend was silent; the proxy recorded status %d, expected 499 %s", res.recorded, ctxt)
		}
		r.Fault(fault)
	case "close-in-body", "reset-in-body":
		if res.clientErr == nil {
			if res.status != status {
				r.Fail("relay-status", "head was relayed with status %d, backend sent %d %s", res.status, status, ctxt)
			}
			if res.bodyErr == nil {
				r.Fail("truncation-hidden", "the backend broke off after %d of %d body-stream bytes, but the client read a complete body of %d bytes without error %s", spec.plan.cutAt-headLen, bodyWire, len(res.body), ctxt)
			}
			if !bytes.HasPrefix(body, res.body) {
				r.Fail("relay-body", "the client read %d bytes that are not a prefix of the backend's body %s", len(res.body), ctxt)
			}
		}
		r.Fault(fault)
	case "client-gone-mid-body":
		if !bytes.HasPrefix(body, res.body) {
			r.Fail("relay-body", "the client read %d bytes that are not a prefix of the backend's body %s", len(res.body), ctxt)
		}
		r.Fault(fault)
	}
	if f := os.Getenv("VERIF_DEBUG_LOG"); f != "" {
		if fh, err := os.OpenFile(f, os.O_APPEND|os.O_CREATE|os.O_WRONLY, 0o644); err == nil {
			fmt.Fprintf(fh, "%s status=%d body=%d n=%d cut=%d chunked=%v bodyErr=%v recorded=%d\n", fault, res.status, len(res.body), n, spec.plan.cutAt, chunked, res.bodyErr, res.recorded)
			fh.Close()
		}
	}
	// identity of the run: the scenario plus the outcome class. For faults inside the body the bytes that still
	// reach the client depend on the reverse proxy's own flush timer (a real timer inside net/http/httputil), so
	// neither the status line nor the prefix length seen by the client are part of the identity - nor of the oracle.
	h := simkit.NewHash()
	switch fault {
	case "close-in-body", "reset-in-body", "client-gone-mid-body", "client-gone-before-response":
		h.Str("aborted")
	default:
		h.Int(int64(res.status))
		h.Int(int64(len(res.body)))
	}
	h.Int(int64(status))
	h.Str(fmt.Sprint(chunked, chunkSizes, hdrs))
	h.Str(fault)
	h.Int(int64(spec.plan.cutAt))
	h.Int(int64(n))
	r.SetDigest(uint64(h))
	if fault != "none" || n > 0 {
		r.Nontrivial()
	}
	if chunked {
		r.Probe("chunked-response")
	}
	if n >= 65536 {
		r.Probe("body>=64KiB")
	}
	r.Sample(func() any {
		return map[string]any{"backend_status": status, "body_bytes": n, "chunked": chunked, "fault": fault, "cut_at": spec.plan.cutAt, "client_status": res.status, "client_body_bytes": len(res.body),
			"client_body_err": fmt.Sprint(res.bodyErr), "recorded_status": res.recorded, "notifications": fmt.Sprint(res.events)}
	})
}

func firstDiff(a, b []byte) int {
	n := len(a)
	if len(b) < n {
		n = len(b)
	}
	for i := 0; i < n; i++ {
		if a[i] != b[i] {
			return i
		}
	}
	return n
}

// decodeBody extracts the body from raw request bytes (fixed length or chunked)
func decodeBody(raw []byte) []byte {
	i := bytes.Index(raw, []byte("\r\n\r\n"))
	if i < 0 {
		return nil
	}
	head, rest := strings.ToLower(string(raw[:i])), raw[i+4:]
	if !strings.Contains(head, "transfer-encoding: chunked") {
		return rest
	}
	var out []byte
	for len(rest) > 0 {
		j := bytes.Index(rest, []byte("\r\n"))
		if j < 0 {
			break
		}
		var n int
		fmt.Sscanf(string(rest[:j]), "%x", &n)
		rest = rest[j+2:]
		if n == 0 || n > len(rest) {
			break
		}
		out = append(out, rest[:n]...)
		rest = rest[n:]
		if len(rest) >= 2 {
			rest = rest[2:]
		}
	}
	return out
}
