package cbsim

import (
	"testing"
	"time"

	"github.com/vulcand/oxy/v2/internal/holsterv4/clock"
	"github.com/vulcand/oxy/v2/zzverif/simkit"
	"pgregory.net/rapid"
)

var simpleConditions = []string{
	"NetworkErrorRatio() > 0.5",
	"NetworkErrorRatio() >= 0.3",
	"ResponseCodeRatio(500, 600, 0, 600) > 0.4",
	"ResponseCodeRatio(500, 600, 200, 300) >= 1.0",
	"NetworkErrorRatio() > 0.5 || ResponseCodeRatio(500, 600, 0, 600) > 0.5",
	"LatencyAtQuantileMS(50.0) > 100",
}

func drawEpoch(rt *rapid.T) time.Time {
	return time.Unix(rapid.Int64Range(1_000_000_000, 4_400_000_000).Draw(rt, "epoch-s"), rapid.Int64Range(0, 999_999_999).Draw(rt, "epoch-ns")).UTC()
}

func drawConfig(rt *rapid.T) cbConfig {
	cfg := cbConfig{
		expr:         rapid.SampledFrom(simpleConditions).Draw(rt, "condition"),
		fallback:     drawDuration(rt, "fallback"),
		recovery:     drawDuration(rt, "recovery"),
		checkPeriod:  drawCheckPeriod(rt),
		fine:         rapid.Bool().Draw(rt, "fine"),
		sideEffects:  rapid.IntRange(0, 3).Draw(rt, "side-effects") == 0,
		fallbackKind: rapid.IntRange(0, 2).Draw(rt, "fallback-kind"),
		slowLogger:   rapid.IntRange(0, 2).Draw(rt, "slow-logger") == 0,
	}
	if cfg.slowLogger && !cfg.fine && rapid.IntRange(0, 2).Draw(rt, "log-sink-breaks-once") == 0 {
		cfg.logPanicAt = rapid.IntRange(1, 40).Draw(rt, "log-call-that-panics")
	}
	if rapid.IntRange(0, 2).Draw(rt, "neighbour-breaker") == 0 {
		cfg.neighbour, cfg.nbFallback, cfg.nbRecovery, cfg.nbTick = true, cfg.fallback, cfg.recovery, cfg.checkPeriod
		if rapid.Bool().Draw(rt, "neighbour-has-its-own-periods") {
			cfg.nbFallback, cfg.nbRecovery = drawDuration(rt, "nb-fallback"), drawDuration(rt, "nb-recovery")
		}
		if cfg.nbTick <= 0 {
			cfg.nbTick = time.Millisecond
		}
	}
	return cfg
}

// workload drives one breaker through trip / fallback / recovery cycles.
// recoveryHeavy biases towards arrival patterns inside the recovery period.
func workload(w *cbWorld, recoveryHeavy bool) {
	rt := w.r.T
	nops := rapid.IntRange(5, deep(120, 400)).Draw(rt, "ops")
	errBias := rapid.SampledFrom([]int{1, 5, 9}).Draw(rt, "error-bias") // tenths
	maxReq := deep(80, 250)
	statusFor := func() int {
		if rapid.IntRange(0, 9).Draw(rt, "err?") < errBias {
			return rapid.SampledFrom([]int{502, 504, 500, 503}).Draw(rt, "err-status")
		}
		return rapid.SampledFrom([]int{200, 200, 0, 204, 404}).Draw(rt, "ok-status")
	}
	runOne := func() {
		if w.cfg.fine {
			return
		}
		w.sim.Quiesce()
		w.check()
	}
	w.abandoned = drawAbandoned(rt)
	if rapid.IntRange(0, 3).Draw(rt, "fallback-handler-can-break") == 0 {
		w.fallbackBreaks = func() bool { return rapid.IntRange(0, 5).Draw(rt, "fallback-breaks") == 0 }
	}
	for i := 0; i < nops; i++ {
		state := w.obs[len(w.obs)-1]
		var kinds []string
		if len(w.reqs) < maxReq {
			kinds = append(kinds, "arrive", "arrive")
			if state != stStandby || recoveryHeavy {
				kinds = append(kinds, "arrive", "burst")
			}
		}
		pk := w.parked()
		if len(pk) > 0 {
			kinds = append(kinds, "complete", "complete")
		}
		kinds = append(kinds, "advance")
		if state != stStandby {
			kinds = append(kinds, "advance", "advance-to-edge")
		}
		if w.cfg.fine && len(w.sim.Runnable()) > 0 {
			kinds = append(kinds, "step", "step", "step")
		}
		if !w.cfg.fine {
			kinds = append(kinds, "rewrap")
		}
		if w.other != nil {
			kinds = append(kinds, "neighbour", "neighbour")
		}
		switch rapid.SampledFrom(kinds).Draw(rt, "op") {
		case "neighbour":
			for k := rapid.IntRange(1, 3).Draw(rt, "neighbour-requests"); k > 0; k-- {
				w.pokeNeighbour(rapid.SampledFrom([]int{500, 500, 503, 200}).Draw(rt, "neighbour-status"))
			}
		case "rewrap":
			// the chain is re-assembled around the breaker (same handler): its state and metrics are unaffected
			w.cb.Wrap(w.handler)
			w.r.Probe("rewrapped")
		case "arrive":
			w.arrive()
			runOne()
		case "burst":
			n := rapid.IntRange(2, 8).Draw(rt, "burst-n")
			for k := 0; k < n && len(w.reqs) < maxReq; k++ {
				w.arrive()
				runOne()
			}
		case "complete":
			q := pk[rapid.IntRange(0, len(pk)-1).Draw(rt, "which")]
			w.complete(q, statusFor())
			runOne()
		case "advance":
			w.advance(w.drawAdvance(rt))
		case "advance-to-edge":
			// land just before / exactly at / just after the end of the current fallback or recovery period
			base := w.cfg.fallback
			if state == stRecovering {
				base = w.cfg.recovery
			}
			// time of the step that last changed the state
			var since time.Duration
			for s := len(w.obs) - 1; s > 0; s-- {
				if w.obs[s] != w.obs[s-1] {
					since = w.stepTime[s]
					break
				}
			}
			target := since + base + time.Duration(rapid.IntRange(-1, 1).Draw(rt, "edge-off"))
			if state == stRecovering && rapid.IntRange(0, 3).Draw(rt, "ramp-inside") > 0 {
				// somewhere on the ramp; otherwise (one in four) the last instants of the recovery period as above
				target = since + time.Duration(rapid.Int64Range(0, int64(base)+1).Draw(rt, "ramp-point"))
			}
			if d := target - w.now(); d > 0 {
				w.advance(d)
			}
		case "step":
			n := rapid.IntRange(1, 10).Draw(rt, "steps")
			for k := 0; k < n && w.sim.StepChosen(); k++ {
				w.check()
			}
		}
	}
	// drain
	for {
		w.sim.Quiesce()
		w.check()
		pk := w.parked()
		if len(pk) == 0 {
			break
		}
		w.complete(pk[0], 200)
	}
	for _, q := range w.reqs {
		if !q.done {
			w.r.Fail("no-return", "request %d never returned", q.id)
		}
		if q.outcome == "" && q.task != w.logPanicTask {
			w.r.Fail("unanswered", "request %d reached neither the handler nor the fallback", q.id)
		}
		if q.outcome == "fallback" && !q.fallbackBroke && q.rec.Status != w.fallbackStatus {
			w.r.Fail("fallback-status", "request %d answered by the fallback shows status %d", q.id, q.rec.Status)
		}
	}
	w.r.ProbeN("neighbour-breaker-requests", w.otherPokes)
}

func finishRun(w *cbWorld, res modelResult) {
	r := w.r
	r.FromSim(w.sim)
	if res.cycles >= 1 && w.maxInHand >= 1 {
		r.Nontrivial()
	}
	r.ProbeN("trip", res.cycles)
	r.ProbeN("trip-with-requests-in-flight", w.tripWithInFlight)
	r.ProbeN("shielded-decisions", res.shielded)
	r.ProbeN("recovery-started", res.recoveries)
	r.ProbeN("ramp-decisions", res.rampDecided)
	r.ProbeN("ramp-passed", res.rampPassed)
	r.ProbeN("back-to-standby", res.backToStand)
	r.ProbeN("retrip-from-recovering", res.retrips)
	r.ProbeN("decision-exactly-on-boundary", res.edgeBoundary)
	if w.cfg.fine {
		r.Probe("fine-mode-run")
	}
	r.Sample(func() any { return w.summary() })
}

var c05kinds = map[string]bool{"shield": true, "standby-refused": true, "illegal-edge": true, "state-mismatch": true}

func TestC05(t *testing.T) {
	simkit.Main(t, "C05", components, func(r *simkit.Run) {
		rt := r.T
		cfg := drawConfig(rt)
		clock.Freeze(drawEpoch(rt))
		defer clock.Unfreeze()
		w := newWorld(r, cfg)
		defer w.sim.Shutdown()
		workload(w, false)
		res := w.replayModel()
		for _, v := range res.violations {
			if c05kinds[v.kind] {
				r.Tracef("run: %v", w.summary())
				r.Fail(v.kind, "%s [%s fallback=%v recovery=%v check=%v fine=%v]", v.msg, cfg.expr, cfg.fallback, cfg.recovery, cfg.checkPeriod, cfg.fine)
			}
		}
		finishRun(w, res)
	})
}
