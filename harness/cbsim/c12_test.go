package cbsim

import (
	"testing"

	"github.com/vulcand/oxy/v2/internal/holsterv4/clock"
	"github.com/vulcand/oxy/v2/zzverif/simkit"
)

var c12kinds = map[string]bool{"ramp-pass": true, "ramp-refuse": true, "recovery-exit": true, "shield-after-retrip": true}

func TestC12(t *testing.T) {
	simkit.Main(t, "C12", components, func(r *simkit.Run) {
		rt := r.T
		cfg := drawConfig(rt)
		clock.Freeze(drawEpoch(rt))
		defer clock.Unfreeze()
		w := newWorld(r, cfg)
		defer w.sim.Shutdown()
		workload(w, true)
		res := w.replayModel()
		for _, v := range res.violations {
			if c12kinds[v.kind] {
				r.Tracef("run: %v", w.summary())
				r.Fail(v.kind, "%s [%s fallback=%v recovery=%v check=%v fine=%v]", v.msg, cfg.expr, cfg.fallback, cfg.recovery, cfg.checkPeriod, cfg.fine)
			}
		}
		finishRun(w, res)
		if res.rampDecided >= 2 {
			r.Nontrivial()
		}
	})
}
