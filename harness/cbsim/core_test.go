package cbsim

import (
	"context"
	"fmt"
	"net/http"
	"net/url"
	"strings"
	"testing"
	"time"

	"github.com/vulcand/oxy/v2/cbreaker"
	"github.com/vulcand/oxy/v2/internal/holsterv4/clock"
	"github.com/vulcand/oxy/v2/zzverif/simkit"
	"github.com/vulcand/oxy/v2/zzverif/simrt"
	"pgregory.net/rapid"
)

var components = map[string][]string{
	"real": {"cbreaker (state machine, ratio controller, predicates, side-effect dispatch)", "memmetrics (RTMetrics, rolling counters, rolling HDR histogram)",
		"vulcand/predicate parser", "utils.ProxyWriter"},
	"simulated": {"goroutine scheduling (simrt, yields at every mutex operation and at the go statement of exec)", "clock (frozen clock advanced by the coordinator)",
		"protected handler (scripted status; latency = simulated time spent parked)", "fallback handler and SideEffect (counting stubs)", "client response writer"},
}

type ctxKey struct{}

const (
	stStandby    = "standby"
	stTripped    = "tripped"
	stRecovering = "recovering"
)

type cbReq struct {
	id            int
	task          *simrt.Task
	rec           *simkit.Recorder
	invokeSeq     uint64
	outcome       string // "handler", "fallback" or "" (not decided yet)
	decSeq        uint64 // seq of the critical section that decided the request
	relSeq        uint64 // seq at which that critical section ended
	enterSeq      uint64
	exitSeq       uint64
	status        int
	done          bool
	doneSeq       uint64
	fallbackBroke bool   // the fallback handler panicked while answering this request
	evalSeq       uint64 // seq of the last lock acquisition of the task when it ended (its checkAndSet, if any)
}

type cbConfig struct {
	expr         string
	fallback     time.Duration
	recovery     time.Duration
	checkPeriod  time.Duration
	fine         bool
	sideEffects  bool
	slowLogger   bool // the caller's logger is slow: every log call is a point where the scheduler may switch tasks
	logPanicAt   int  // > 0 (with slowLogger): that log call panics, once
	fallbackKind int  // 0 plain 503, 1 cbreaker.ResponseFallback, 2 cbreaker.RedirectFallback
	// neighbour: the process has a second breaker, protecting something else, with periods of its own (or the same
	// ones), which trips and recovers on its own traffic while the breaker under test is judged
	neighbour                      bool
	nbFallback, nbRecovery, nbTick time.Duration
}

type countingEffect struct{ n int }

func (c *countingEffect) Exec() error { c.n++; return nil }

// cbWorld is one breaker under simulation together with everything observed.
type cbWorld struct {
	fallbackBreaks   func() bool // draws whether the caller's fallback handler panics this time
	afterFallback    string
	logLeft          int
	logPanicTask     *simrt.Task
	logPanicSeq      uint64
	other            *cbreaker.CircuitBreaker // the neighbour (cfg.neighbour)
	otherStatus      int
	otherPokes       int
	abandoned        func() int   // draws whether the next request arrives with its context already done: 0 no, 1 cancelled, 2 past its deadline
	handler          http.Handler // the protected handler (for re-wrapping)
	r                *simkit.Run
	cfg              cbConfig
	sim              *simrt.Sim
	cb               *cbreaker.CircuitBreaker
	start            time.Time
	reqs             []*cbReq
	stepTime         []time.Duration // simulated time (since start) of every scheduler step, indexed by seq
	obs              []string        // observed breaker state after every step, indexed by seq
	onTripped        *countingEffect
	onStandby        *countingEffect
	inHandler        int
	maxInHand        int
	tripWithInFlight int
	fallbackStatus   int
}

func newWorld(r *simkit.Run, cfg cbConfig) *cbWorld {
	w := &cbWorld{r: r, cfg: cfg, onTripped: &countingEffect{}, onStandby: &countingEffect{}}
	w.sim = simrt.New(r.Chooser())
	w.sim.Fine = cfg.fine
	if testing.Verbose() {
		w.sim.TraceF = r.Tracef
	}
	w.start = clock.Now().UTC()
	handler := http.HandlerFunc(func(rw http.ResponseWriter, req *http.Request) {
		q := req.Context().Value(ctxKey{}).(*cbReq)
		if q.outcome == "fallback" {
			w.afterFallback = fmt.Sprintf("request %d was answered by the fallback (broken=%v) and then handed to the protected handler as well", q.id, q.fallbackBroke)
		}
		q.outcome = "handler"
		q.decSeq = q.task.LastAcq
		q.relSeq = q.task.LastRel
		if q.decSeq <= q.invokeSeq {
			q.decSeq = w.sim.Seq // no lock taken since the request arrived: the decision is where we are now
			q.relSeq = w.sim.Seq
		}
		q.enterSeq = w.sim.Seq
		w.inHandler++
		if w.inHandler > w.maxInHand {
			w.maxInHand = w.inHandler
		}
		status := w.sim.Park("handler").(int)
		w.inHandler--
		q.exitSeq = w.sim.Seq
		q.status = status
		if status != 0 {
			rw.WriteHeader(status)
		}
		_, _ = rw.Write([]byte("body"))
	})
	// the fallback is one of oxy's own fallback handlers (or a plain 503) behind a wrapper that notes that it ran
	var realFallback http.Handler
	w.fallbackStatus = http.StatusServiceUnavailable
	switch cfg.fallbackKind {
	case 1:
		rf, err := cbreaker.NewResponseFallback(cbreaker.Response{StatusCode: 418, ContentType: "text/plain", Body: []byte("breaker open")})
		if err != nil {
			r.T.Fatalf("response fallback: %v", err)
		}
		realFallback, w.fallbackStatus = rf, 418
	case 2:
		rf, err := cbreaker.NewRedirectFallback(cbreaker.Redirect{URL: "http://standby.example/", PreservePath: true})
		if err != nil {
			r.T.Fatalf("redirect fallback: %v", err)
		}
		realFallback, w.fallbackStatus = rf, http.StatusFound
	}
	fallback := http.HandlerFunc(func(rw http.ResponseWriter, req *http.Request) {
		q := req.Context().Value(ctxKey{}).(*cbReq)
		q.outcome = "fallback"
		q.decSeq = q.task.LastAcq
		q.relSeq = q.task.LastRel
		if q.decSeq <= q.invokeSeq {
			q.decSeq = w.sim.Seq
			q.relSeq = w.sim.Seq
		}
		if w.fallbackBreaks != nil && w.fallbackBreaks() {
			// the caller's fallback handler is itself broken this time: the request is lost to its client, and the
			// breaker's decision about it stands - it must not be handed to the protected handler instead
			q.fallbackBroke = true
			w.r.Fault("fallback-handler-panic")
			panic("simulated: the fallback handler is broken")
		}
		if realFallback != nil {
			realFallback.ServeHTTP(rw, req)
			return
		}
		rw.WriteHeader(http.StatusServiceUnavailable)
	})
	var logOpt []cbreaker.Option
	if cfg.slowLogger {
		w.logLeft = cfg.logPanicAt
		logOpt = append(logOpt, cbreaker.Logger(yieldLogger{sim: w.sim, left: &w.logLeft, onPanic: func() {
			// the request in whose course the sink broke is lost to its client; the breaker is not excused anything
			w.logPanicTask = w.sim.Current()
			w.logPanicSeq = w.sim.Seq
			w.r.Fault("logger-panic")
		}}))
	}
	opts := []cbreaker.Option{cbreaker.FallbackDuration(cfg.fallback), cbreaker.RecoveryDuration(cfg.recovery), cbreaker.CheckPeriod(cfg.checkPeriod), cbreaker.Fallback(fallback)}
	if cfg.sideEffects {
		opts = append(opts, cbreaker.OnTripped(w.onTripped), cbreaker.OnStandby(w.onStandby))
	}
	opts = append(opts, logOpt...)
	cb, err := cbreaker.New(handler, cfg.expr, opts...)
	if err != nil {
		w.sim.Shutdown()
		r.T.Fatalf("cbreaker.New(%q): %v", cfg.expr, err)
	}
	w.cb = cb
	w.handler = handler
	if cfg.neighbour {
		o, err := cbreaker.New(http.HandlerFunc(func(rw http.ResponseWriter, _ *http.Request) { rw.WriteHeader(w.otherStatus) }),
			"ResponseCodeRatio(500, 600, 0, 600) > 0.5", cbreaker.FallbackDuration(cfg.nbFallback), cbreaker.RecoveryDuration(cfg.nbRecovery), cbreaker.CheckPeriod(cfg.nbTick))
		if err != nil {
			w.sim.Shutdown()
			r.T.Fatalf("neighbour breaker: %v", err)
		}
		w.other = o
	}
	w.stepTime = []time.Duration{0}
	w.obs = []string{w.observe()}
	w.sim.AfterStep = func(t *simrt.Task) {
		for uint64(len(w.stepTime)) <= w.sim.Seq {
			w.stepTime = append(w.stepTime, w.now())
			w.obs = append(w.obs, "")
		}
		prev := w.obs[w.sim.Seq-1]
		s := prev
		// While a parked task holds the breaker's lock exclusively the state is in the middle of a critical section,
		// and an implementation whose String() takes the lock would make this observer wait for a task that cannot
		// run: the last reading stands until that lock is free again.
		if w.sim.WriteLocksHeld() == 0 {
			s = w.observe()
		}
		w.obs[w.sim.Seq] = s
		if s != prev {
			w.sim.NoteStr("state", s)
			if s == stTripped && w.inHandler > 0 {
				w.tripWithInFlight++
			}
		}
	}
	return w
}

func (w *cbWorld) now() time.Duration { return clock.Now().UTC().Sub(w.start) }

// observe reads the state through the breaker's public String(); nothing else
// runs while the coordinator does this.
func (w *cbWorld) observe() string {
	s := w.cb.String()
	switch {
	case strings.Contains(s, "state=standby"):
		return stStandby
	case strings.Contains(s, "state=tripped"):
		return stTripped
	case strings.Contains(s, "state=recovering"):
		return stRecovering
	}
	return s
}

func (w *cbWorld) arrive() *cbReq {
	q := &cbReq{id: len(w.reqs), rec: simkit.NewRecorder()}
	w.reqs = append(w.reqs, q)
	ctx := context.WithValue(context.Background(), ctxKey{}, q)
	if w.abandoned != nil {
		// the client has already given up on this request, or a deadline set in front of the breaker has passed (its
		// context is done): the breaker decides as for any other, and its response counts as any other
		switch w.abandoned() {
		case 1:
			c, cancel := context.WithCancel(ctx)
			cancel()
			ctx = c
			w.r.Fault("request-already-abandoned")
		case 2:
			c, cancel := context.WithDeadline(ctx, time.Unix(1, 0))
			defer cancel()
			ctx = c
			w.r.Fault("request-past-its-deadline")
		}
	}
	req := (&http.Request{Method: "GET", URL: &url.URL{Scheme: "http", Host: "sim", Path: "/"}, Header: http.Header{}, Host: "sim", RemoteAddr: "10.0.0.1:1"}).
		WithContext(ctx)
	q.task = w.sim.Spawn(fmt.Sprintf("req%d", q.id), func() {
		q.invokeSeq = w.sim.Seq
		defer func() { q.done = true; q.doneSeq = w.sim.Seq; q.evalSeq = q.task.LastAcq }()
		w.cb.ServeHTTP(q.rec, req)
	})
	w.sim.Note("arrive", int64(q.id))
	return q
}

func (w *cbWorld) parked() []*cbReq {
	var out []*cbReq
	for _, q := range w.reqs {
		if _, ok := q.task.Parked(); ok {
			out = append(out, q)
		}
	}
	return out
}

func (w *cbWorld) complete(q *cbReq, status int) {
	w.sim.Note("complete", int64(q.id), int64(status))
	w.sim.Unpark(q.task, status)
}

func (w *cbWorld) advance(d time.Duration) {
	// time stands still while somebody is inside a critical section of the breaker (a slow logger may park a task
	// there): the statement's instants - "the breaker trips", "a request arrives" - are then well defined
	if d <= 0 || w.sim.LocksHeld() > 0 {
		return
	}
	clock.Advance(d)
	w.r.SimTime(d)
	w.sim.Note("advance", int64(d))
}

func (w *cbWorld) check() {
	if w.sim.Deadlocked() {
		w.r.Fail("deadlock", "no task can run but %d wait for a lock", len(w.sim.Blocked()))
	}
	for _, t := range w.sim.Tasks() {
		if w.afterFallback != "" {
			w.r.Fail("shield", "%s", w.afterFallback)
		}
		if t.Panic != nil && t != w.logPanicTask && !w.brokeFallback(t) {
			w.r.Fail("panic", "task %s panicked: %v\n%s", t.Name, t.Panic, t.PanicSite)
		}
	}
}

// drawDuration draws a configured duration between 1ms and 10min.
func drawDuration(rt *rapid.T, label string) time.Duration {
	switch rapid.IntRange(0, 5).Draw(rt, label+"-scale") {
	case 0:
		return time.Duration(rapid.IntRange(1, 50).Draw(rt, label)) * time.Millisecond
	case 1:
		return time.Duration(rapid.IntRange(50, 2000).Draw(rt, label)) * time.Millisecond
	case 2, 3:
		return time.Duration(rapid.IntRange(1, 15).Draw(rt, label)) * time.Second
	case 4:
		return time.Duration(rapid.IntRange(15, 120).Draw(rt, label)) * time.Second
	default:
		return time.Duration(rapid.IntRange(2, 10).Draw(rt, label)) * time.Minute
	}
}

// drawAdvance draws a clock step from a mixture around the configured durations.
func (w *cbWorld) drawAdvance(rt *rapid.T) time.Duration {
	base := []time.Duration{w.cfg.fallback, w.cfg.recovery, w.cfg.checkPeriod}[rapid.IntRange(0, 2).Draw(rt, "adv-base")]
	if base <= 1 {
		base = time.Millisecond // a check period of zero: the condition is evaluated at every completion at a later instant
	}
	switch rapid.IntRange(0, 11).Draw(rt, "adv-kind") {
	case 0:
		return 1
	case 1:
		return base - 1
	case 2:
		return base
	case 3:
		return base + 1
	case 4, 5:
		return time.Duration(rapid.Int64Range(1, int64(base)).Draw(rt, "adv-frac"))
	case 6:
		return base / time.Duration(rapid.IntRange(2, 20).Draw(rt, "adv-div"))
	case 7:
		return time.Duration(rapid.IntRange(1, 3000).Draw(rt, "adv-ms")) * time.Millisecond
	case 8:
		return time.Duration(rapid.IntRange(1, 30).Draw(rt, "adv-s")) * time.Second
	case 9:
		return base * time.Duration(rapid.IntRange(2, 5).Draw(rt, "adv-mul"))
	case 10:
		return time.Duration(rapid.IntRange(1, 500).Draw(rt, "adv-us")) * time.Microsecond
	default:
		return time.Duration(rapid.IntRange(1, 48).Draw(rt, "adv-h")) * time.Hour
	}
}

// ---------------------------------------------------------------------------
// reference model of the breaker's state machine, replayed over the recorded
// events in the order of their critical sections.

type cbEvent struct {
	cmpSeq uint64 // where the critical section of this event ended: the observed state there is compared with the model
	seq    uint64
	t      time.Duration
	kind   string // "trip" (observed) or "decision"
	req    *cbReq
}

type violation struct {
	kind string
	msg  string
}

type modelResult struct {
	violations   []violation
	rampDecided  int
	rampPassed   int
	shielded     int
	cycles       int
	recoveries   int
	backToStand  int
	retrips      int
	tripsSeen    int
	standbySeen  int
	edgeBoundary int
}

// replayModel walks the merged event list. Transitions into tripped are taken
// from observation (whether the condition held is C18's business); everything
// else is predicted: tripped at time T shields until T+fallback, the first
// decision at or after that starts the ramp at R, decisions inside [R, R+D] must
// follow the ramp inequality exactly, the first decision after R+D returns to
// standby.
func (w *cbWorld) replayModel() modelResult {
	var res modelResult
	var evs []cbEvent
	for _, q := range w.reqs {
		if q.outcome != "" {
			rs := q.relSeq
			if rs < q.decSeq {
				rs = q.decSeq
			}
			evs = append(evs, cbEvent{seq: q.decSeq, cmpSeq: rs, t: w.stepTime[q.decSeq], kind: "decision", req: q})
		}
	}
	// The request in whose course the log sink broke, if it reached neither the handler nor the fallback: what the
	// breaker did with it before it was lost is its own business - nothing, or the transition that was due and a
	// refusal - and is read off the state it reports once that request has unwound.
	for _, q := range w.reqs {
		if q.task == w.logPanicTask && q.outcome == "" && q.done {
			evs = append(evs, cbEvent{seq: w.logPanicSeq, cmpSeq: q.doneSeq, t: w.stepTime[w.logPanicSeq], kind: "lost", req: q})
		}
	}
	for seq := 1; seq < len(w.obs); seq++ {
		if w.obs[seq] == stTripped && w.obs[seq-1] != stTripped {
			evs = append(evs, cbEvent{seq: uint64(seq), cmpSeq: uint64(seq), t: w.stepTime[seq], kind: "trip"})
		}
		if w.obs[seq] != w.obs[seq-1] {
			from, to := w.obs[seq-1], w.obs[seq]
			legal := (from == stStandby && to == stTripped) || (from == stTripped && to == stRecovering) ||
				(from == stRecovering && to == stStandby) || (from == stRecovering && to == stTripped)
			if !legal {
				res.violations = append(res.violations, violation{"illegal-edge", fmt.Sprintf("state went %s -> %s at seq %d (t=%v)", from, to, seq, w.stepTime[seq])})
			}
			if to == stTripped {
				res.tripsSeen++
			}
			if to == stStandby {
				res.standbySeen++
			}
		}
	}
	// sort by seq (insertion sort is fine: few events)
	for i := 1; i < len(evs); i++ {
		for j := i; j > 0 && evs[j].seq < evs[j-1].seq; j-- {
			evs[j], evs[j-1] = evs[j-1], evs[j]
		}
	}
	state := stStandby
	var until, R time.Duration
	D := w.cfg.recovery
	var P, N int64
	var amb int64 // 1: a lost request may have been counted as refused by the ramp of the current recovery
	fromRecovering := false
	add := func(kind, format string, args ...any) {
		res.violations = append(res.violations, violation{kind, fmt.Sprintf(format, args...)})
	}
	for _, e := range evs {
		if e.kind == "trip" {
			if state == stRecovering {
				res.retrips++
				fromRecovering = true
			} else {
				fromRecovering = false
			}
			state = stTripped
			until = e.t + w.cfg.fallback
			res.cycles++
			goto compare
		}
		if e.kind == "lost" {
			seen := state
			if int(e.cmpSeq) < len(w.obs) {
				seen = w.obs[e.cmpSeq]
			}
			switch {
			case state == stTripped && e.t >= until && seen == stRecovering:
				state, R, P, N, amb = stRecovering, e.t, 0, 0, 1
				res.recoveries++
			case state == stRecovering && e.t-R > D && seen == stStandby:
				state = stStandby
				res.backToStand++
			case state == stRecovering && e.t-R <= D:
				amb = 1
			}
			continue
		}
		{
			q := e.req
			passed := q.outcome == "handler"
			switch state {
			case stStandby:
				if !passed {
					add("standby-refused", "request %d decided at t=%v (seq %d) while the breaker was in standby was answered by the fallback", q.id, e.t, e.seq)
				}
			case stTripped:
				if e.t == until && int(e.cmpSeq) < len(w.obs) && w.obs[e.cmpSeq] == stTripped {
					// exactly at the end of the fallback period: the statement leaves the boundary open - but a breaker
					// that itself still reports tripped after this decision has no business passing the request
					res.edgeBoundary++
					if passed {
						add("shield", "request %d decided exactly at the end of the fallback period (t=%v): the breaker still reports tripped and passed it to the protected handler", q.id, e.t)
					}
					break
				}
				if e.t < until {
					res.shielded++
					if passed {
						k := "shield"
						if fromRecovering {
							k = "shield-after-retrip"
						}
						add(k, "request %d decided at t=%v (seq %d), breaker tripped until t=%v (fallback %v): passed to the protected handler", q.id, e.t, e.seq, until, w.cfg.fallback)
					}
					break
				}
				// fallback period over: recovery begins with this decision
				state = stRecovering
				R, P, N, amb = e.t, 0, 0, 0
				res.recoveries++
				fallthrough
			case stRecovering:
				el := e.t - R
				if el > D {
					state = stStandby
					res.backToStand++
					if !passed {
						add("recovery-exit", "request %d decided at t=%v, %v after recovery began (recovery duration %v): refused, expected standby and pass", q.id, e.t, el, D)
					}
					break
				}
				// ramp: passing must keep (P+1)/(N+1) strictly below 0.5*el/D
				res.rampDecided++
				// The verdict under every admissible reading of a lost request (not counted by the ramp, counted as
				// refused, counted as passed although it never reached the handler): a violation only if all agree.
				verdict := func() string {
					readings := [][2]int64{{0, 0}}
					if amb > 0 {
						readings = append(readings, [2]int64{0, 1}, [2]int64{1, 1})
					}
					out := ""
					for i, rd := range readings {
						lhs := 2 * (P + rd[0] + 1) * int64(D)
						rhs := int64(el) * (N + rd[1] + 1)
						diff := lhs - rhs
						if diff < 0 {
							diff = -diff
						}
						v := ""
						if diff > lhs/1_000_000_000 {
							if passed && lhs > rhs {
								v = "ramp-pass"
							}
							if !passed && lhs < rhs {
								v = "ramp-refuse"
							}
						}
						if i == 0 {
							out = v
						} else if v != out {
							out = ""
						}
					}
					return out
				}
				if el == D {
					res.edgeBoundary++
					// exactly at the end of the recovery period both readings are acceptable (the period is over: standby;
					// or this is its last instant: the ramp, now at 0.5) - adopt the one the implementation took
					if int(e.cmpSeq) < len(w.obs) && (w.obs[e.cmpSeq] == stStandby || w.obs[e.cmpSeq] == stRecovering) {
						state = w.obs[e.cmpSeq]
					}
					// a breaker that itself says "still recovering" is bound by the ramp at this instant like at any other
					if state == stRecovering {
						switch verdict() {
						case "ramp-pass":
							add("ramp-pass", "request %d passed at the last instant of a %v recovery (the breaker still reports recovering) with %d passed of %d decided so far: (P+1)/(N+1)=%d/%d is not below 0.5",
								q.id, D, P, N, P+1, N+1)
						case "ramp-refuse":
							add("ramp-refuse", "request %d refused at the last instant of a %v recovery (the breaker still reports recovering) with %d passed of %d decided so far: passing it would keep (P+1)/(N+1)=%d/%d below 0.5",
								q.id, D, P, N, P+1, N+1)
						}
					}
					if passed {
						P++
					}
					N++
					if state == stStandby && !passed {
						add("recovery-exit", "request %d decided exactly at the end of the recovery period: breaker went to standby but refused it", q.id)
					}
					break
				}
				switch verdict() {
				case "ramp-pass":
					add("ramp-pass", "request %d passed at %v into a %v recovery with %d passed of %d decided so far: (P+1)/(N+1)=%d/%d is not below 0.5*elapsed/duration",
						q.id, el, D, P, N, P+1, N+1)
				case "ramp-refuse":
					add("ramp-refuse", "request %d refused at %v into a %v recovery with %d passed of %d decided so far: passing it would keep (P+1)/(N+1)=%d/%d below the ramp 0.5*elapsed/duration",
						q.id, el, D, P, N, P+1, N+1)
				}
				if passed {
					P++
					res.rampPassed++
				}
				N++
			}
		}
	compare:
		if int(e.cmpSeq) < len(w.obs) && w.obs[e.cmpSeq] != state {
			// the observed machine and the model disagree after this critical section
			{
				add("state-mismatch", "after seq %d (t=%v, %s) the breaker reports %s, the reference model is %s", e.cmpSeq, e.t, e.kind, w.obs[e.cmpSeq], state)
				state = w.obs[e.cmpSeq]
				if state == stRecovering {
					R, P, N = e.t, 0, 0
				}
			}
		}
	}
	return res
}

func (w *cbWorld) summary() map[string]any {
	var rs []string
	for i, q := range w.reqs {
		if i >= 40 {
			break
		}
		rs = append(rs, fmt.Sprintf("r%d inv@%d %s@%d(t=%v) status=%d", q.id, q.invokeSeq, q.outcome, q.decSeq, w.stepTime[minu(q.decSeq, uint64(len(w.stepTime)-1))], q.status))
	}
	return map[string]any{"expr": w.cfg.expr, "fallback": w.cfg.fallback.String(), "recovery": w.cfg.recovery.String(), "check_period": w.cfg.checkPeriod.String(),
		"fine": w.cfg.fine, "requests": rs, "steps": w.sim.Steps}
}

func minu(a, b uint64) uint64 {
	if a < b {
		return a
	}
	return b
}

// yieldLogger is a utils.Logger whose calls take time: each one is a yield point.
type yieldLogger struct {
	sim     *simrt.Sim
	left    *int   // > 0: the call that brings it to zero panics (the log sink breaks once)
	onPanic func() // told first
}

// like a real logger it renders its arguments: the breaker logs itself with %v, also while it holds its lock
func (l yieldLogger) log(f string, a []interface{}) {
	_ = fmt.Sprintf(f, a...)
	if l.left != nil && *l.left > 0 {
		*l.left--
		if *l.left == 0 {
			*l.left = -1
			l.onPanic()
			panic("simulated: the log sink is broken")
		}
	}
	l.sim.Yield()
}
func (l yieldLogger) Debug(f string, a ...interface{}) { l.log(f, a) }
func (l yieldLogger) Info(f string, a ...interface{})  { l.log(f, a) }
func (l yieldLogger) Warn(f string, a ...interface{})  { l.log(f, a) }
func (l yieldLogger) Error(f string, a ...interface{}) { l.log(f, a) }

// drawCheckPeriod: like the other durations, and now and then zero (evaluate whenever the clock has moved on).
func drawCheckPeriod(rt *rapid.T) time.Duration {
	if rapid.IntRange(0, 7).Draw(rt, "check-period-zero") == 0 {
		return 0
	}
	return drawDuration(rt, "check-period")
}

// drawAbandoned: whether requests with a context that is already done occur in this run at all is drawn once; if they
// do, one request in four is such a request.
func drawAbandoned(rt *rapid.T) func() int {
	if rapid.IntRange(0, 2).Draw(rt, "requests-with-done-contexts") != 0 {
		return nil
	}
	return func() int {
		if rapid.IntRange(0, 3).Draw(rt, "abandoned") != 0 {
			return 0
		}
		return rapid.IntRange(1, 2).Draw(rt, "abandoned-how")
	}
}

// pokeNeighbour sends one request of the neighbour's own traffic through the neighbour breaker (by the coordinator,
// between scheduler steps: the neighbour shares nothing with the breaker under test but the process and the clock).
func (w *cbWorld) pokeNeighbour(status int) {
	w.otherStatus = status
	w.otherPokes++
	req := &http.Request{Method: "GET", URL: &url.URL{Scheme: "http", Host: "other", Path: "/"}, Header: http.Header{}, Host: "other", RemoteAddr: "10.0.0.2:1"}
	w.other.ServeHTTP(simkit.NewRecorder(), req)
}

func (w *cbWorld) brokeFallback(t *simrt.Task) bool {
	for _, q := range w.reqs {
		if q.task == t {
			return q.fallbackBroke
		}
	}
	return false
}
