package cbsim

import (
	"fmt"
	"math"
	"sort"
	"strconv"
	"testing"
	"time"

	"github.com/vulcand/oxy/v2/internal/holsterv4/clock"
	"github.com/vulcand/oxy/v2/memmetrics"
	"github.com/vulcand/oxy/v2/zzverif/simkit"
	"pgregory.net/rapid"
)

// ---- condition expressions -------------------------------------------------

type expr struct {
	op    string // "&&", "||", or "" for an atom
	l, r  *expr
	atom  atom
	paren bool // redundant parentheses when rendered
}

type atom struct {
	fn         string // "net", "code", "lat"
	a, b, c, d int    // code ranges
	q          float64
	cmp        string
	fval       float64
	ival       int
}

func fmtFloat(f float64) string {
	s := strconv.FormatFloat(f, 'f', -1, 64)
	for i := 0; i < len(s); i++ {
		if s[i] == '.' {
			return s
		}
	}
	return s + ".0"
}

func (a atom) String() string {
	switch a.fn {
	case "net":
		return fmt.Sprintf("NetworkErrorRatio() %s %s", a.cmp, fmtFloat(a.fval))
	case "code":
		return fmt.Sprintf("ResponseCodeRatio(%d, %d, %d, %d) %s %s", a.a, a.b, a.c, a.d, a.cmp, fmtFloat(a.fval))
	default:
		return fmt.Sprintf("LatencyAtQuantileMS(%s) %s %d", fmtFloat(a.q), a.cmp, a.ival)
	}
}

// render relies on Go precedence (&& binds tighter than ||): an || below an &&
// needs parentheses, everything else only gets them when paren is set.
func (e *expr) render(parentAnd bool) string {
	var s string
	if e.op == "" {
		s = e.atom.String()
	} else {
		s = e.l.render(e.op == "&&") + " " + e.op + " " + e.r.render(e.op == "&&")
	}
	if e.paren || (e.op == "||" && parentAnd) {
		return "(" + s + ")"
	}
	return s
}

var cmps = []string{"==", "!=", "<", "<=", ">", ">="}

func drawAtom(rt *rapid.T) atom {
	a := atom{cmp: rapid.SampledFrom(cmps).Draw(rt, "cmp")}
	switch rapid.IntRange(0, 2).Draw(rt, "fn") {
	case 0:
		a.fn = "net"
		a.fval = rapid.SampledFrom([]float64{0, 0.25, 0.5, 0.75, 1, 0.1, 0.34}).Draw(rt, "thr")
	case 1:
		a.fn = "code"
		ranges := [][4]int{{500, 600, 0, 600}, {500, 600, 200, 300}, {400, 500, 200, 600}, {502, 505, 200, 210}, {200, 300, 500, 600}, {0, 600, 0, 600}}
		rg := rapid.SampledFrom(ranges).Draw(rt, "ranges")
		a.a, a.b, a.c, a.d = rg[0], rg[1], rg[2], rg[3]
		a.fval = rapid.SampledFrom([]float64{0, 0.25, 0.5, 1, 2, 0.34}).Draw(rt, "thr")
	default:
		a.fn = "lat"
		a.q = rapid.SampledFrom([]float64{50, 90, 99, 100, 10, 0}).Draw(rt, "quantile")
		a.ival = rapid.SampledFrom([]int{20, 200, 2000, 5, 50, 0}).Draw(rt, "thr-ms")
	}
	return a
}

func drawExpr(rt *rapid.T, depth int) *expr {
	if depth == 0 || rapid.IntRange(0, 2).Draw(rt, "leaf") == 0 {
		return &expr{atom: drawAtom(rt), paren: rapid.IntRange(0, 5).Draw(rt, "paren") == 0}
	}
	return &expr{op: rapid.SampledFrom([]string{"&&", "||"}).Draw(rt, "bool-op"), l: drawExpr(rt, depth-1), r: drawExpr(rt, depth-1),
		paren: rapid.IntRange(0, 5).Draw(rt, "paren") == 0}
}

// ---- three-valued evaluation ----------------------------------------------------

type tri int

const (
	triFalse tri = iota
	triTrue
	triUnknown
)

func triOf(b bool) tri {
	if b {
		return triTrue
	}
	return triFalse
}

func (a tri) and(b tri) tri {
	if a == triFalse || b == triFalse {
		return triFalse
	}
	if a == triTrue && b == triTrue {
		return triTrue
	}
	return triUnknown
}

func (a tri) or(b tri) tri {
	if a == triTrue || b == triTrue {
		return triTrue
	}
	if a == triFalse && b == triFalse {
		return triFalse
	}
	return triUnknown
}

func cmpFloat(v float64, op string, c float64) bool {
	switch op {
	case "==":
		return v == c
	case "!=":
		return v != c
	case "<":
		return v < c
	case "<=":
		return v <= c
	case ">":
		return v > c
	default:
		return v >= c
	}
}

func cmpInt(v int, op string, c int) bool { return cmpFloat(float64(v), op, float64(c)) }

type response struct {
	t       time.Duration // completion time
	status  int
	latency time.Duration
}

// evalAtom evaluates one comparison over the responses in `in` (certainly in the
// window). Ratios with an empty denominator and quantiles whose admissible
// values straddle the threshold are unknown.
func evalAtom(a atom, in []response, latencyCertain bool) tri {
	switch a.fn {
	case "net":
		total, ne := 0, 0
		for _, r := range in {
			total++
			if r.status == 502 || r.status == 504 {
				ne++
			}
		}
		if total == 0 {
			return triUnknown
		}
		return triOf(cmpFloat(float64(ne)/float64(total), a.cmp, a.fval))
	case "code":
		x, y := 0, 0
		for _, r := range in {
			if r.status >= a.a && r.status < a.b {
				x++
			}
			if r.status >= a.c && r.status < a.d {
				y++
			}
		}
		if y == 0 {
			return triUnknown
		}
		return triOf(cmpFloat(float64(x)/float64(y), a.cmp, a.fval))
	default:
		if !latencyCertain || len(in) == 0 {
			return triUnknown
		}
		ls := make([]float64, len(in))
		for i, r := range in {
			ls[i] = float64(r.latency) / float64(time.Millisecond)
		}
		sort.Float64s(ls)
		n := float64(len(ls))
		// every usual rank convention for the q-th percentile
		pos := a.q / 100 * n
		cands := map[int]bool{}
		for _, k := range []float64{math.Floor(pos), math.Ceil(pos), math.Floor(pos + 0.5), math.Ceil(pos) + 1, math.Floor(pos) - 1} {
			i := int(k)
			if i < 1 {
				i = 1
			}
			if i > len(ls) {
				i = len(ls)
			}
			cands[i] = true
		}
		var res tri = -1
		if math.Floor(pos+0.5) < 1 {
			// rounded nearest-rank gives rank 0: "below every sample" (what the HDR library answers: 0) is admitted too
			res = triOf(cmpInt(0, a.cmp, a.ival))
		}
		for i := range cands {
			v := ls[i-1]
			lo, hi := int(math.Floor(v*0.97))-1, int(math.Ceil(v*1.03))+1
			if lo < 0 {
				lo = 0
			}
			for _, x := range []int{lo, hi, a.ival - 1, a.ival, a.ival + 1} {
				if x < lo || x > hi {
					continue
				}
				t := triOf(cmpInt(x, a.cmp, a.ival))
				if res == -1 {
					res = t
				} else if res != t {
					return triUnknown
				}
			}
		}
		if res == -1 {
			return triUnknown
		}
		return res
	}
}

func evalExpr(e *expr, in []response, latencyCertain bool) tri {
	if e.op == "" {
		return evalAtom(e.atom, in, latencyCertain)
	}
	l, r := evalExpr(e.l, in, latencyCertain), evalExpr(e.r, in, latencyCertain)
	if e.op == "&&" {
		return l.and(r)
	}
	return l.or(r)
}

// evalWindow decides the expression at an evaluation at time now over the
// responses recorded since the last trip: younger than half the counter window
// are certainly counted, older than the window certainly not, and for those in
// between every cut-off (oldest dropped first) is tried.
func evalWindow(e *expr, recorded []response, now, window time.Duration) tri {
	var certain, maybe []response
	for _, r := range recorded {
		age := now - r.t
		switch {
		case age < window/2:
			certain = append(certain, r)
		case age <= window:
			maybe = append(maybe, r)
		}
	}
	// anything older than half the window makes the (differently rolled) latency histogram uncertain
	latencyCertain := len(certain) == len(recorded)
	for _, r := range recorded {
		// a response slower than an hour is beyond what a latency histogram has to resolve: the latency atoms are
		// not judged with one in play (it counts like any other response in every ratio)
		if r.latency > time.Hour && now-r.t <= window {
			latencyCertain = false
		}
	}
	sort.Slice(maybe, func(i, j int) bool { return maybe[i].t > maybe[j].t }) // youngest first
	var res tri = -1
	for cut := 0; cut <= len(maybe); cut++ {
		in := append(append([]response(nil), certain...), maybe[:cut]...)
		t := evalExpr(e, in, latencyCertain)
		if t == triUnknown {
			return triUnknown
		}
		if res == -1 {
			res = t
		} else if res != t {
			return triUnknown
		}
	}
	return res
}

// ---- the check ---------------------------------------------------------------

func TestC18(t *testing.T) {
	simkit.Main(t, "C18", components, c18prop)
}

func c18prop(r *simkit.Run) {
	rt := r.T
	e := drawExpr(rt, 3)
	cfg := cbConfig{
		expr:        e.render(false),
		fallback:    drawDuration(rt, "fallback"),
		recovery:    drawDuration(rt, "recovery"),
		checkPeriod: drawCheckPeriod(rt),
		fine:        rapid.IntRange(0, 3).Draw(rt, "fine") == 0,
		sideEffects: true,
	}
	clock.Freeze(drawEpoch(rt))
	defer clock.Unfreeze()
	m, err := memmetrics.NewRTMetrics()
	if err != nil {
		rt.Fatalf("metrics: %v", err)
	}
	window := m.CounterWindowSize()
	w := newWorld(r, cfg)
	defer w.sim.Shutdown()
	w.abandoned = drawAbandoned(rt)
	latencies := []time.Duration{5 * time.Millisecond, 50 * time.Millisecond, 500 * time.Millisecond, 5 * time.Second}
	statuses := []int{200, 200, 201, 404, 500, 502, 503, 504, 0}
	nops := rapid.IntRange(5, deep(100, 350)).Draw(rt, "ops")
	lc := rapid.IntRange(0, 4).Draw(rt, "long-cycles")
	longCycles := lc == 0
	// in some runs a backend may also hang for hours before it answers (such a response empties every window, so
	// these stay a minority of the runs; no draw of its own: the run shapes of all other runs stay what they were)
	hangs := lc == 3
	if hangs {
		latencies = append(latencies, 59*time.Minute, 61*time.Minute, 2*time.Hour, 30*time.Hour)
	}
	for i := 0; i < nops; i++ {
		var kinds []string
		if len(w.reqs) < 70 {
			kinds = append(kinds, "arrive", "arrive", "serve", "serve", "serve")
		}
		pk := w.parked()
		if len(pk) > 0 {
			kinds = append(kinds, "complete", "complete")
		}
		kinds = append(kinds, "advance")
		if w.cfg.fine && len(w.sim.Runnable()) > 0 {
			kinds = append(kinds, "step", "step")
		}
		switch rapid.SampledFrom(kinds).Draw(rt, "op") {
		case "arrive":
			w.arrive()
			if !cfg.fine {
				w.sim.Quiesce()
			}
		case "serve":
			// one whole request: arrive, stay in the handler for a drawn latency, complete
			q := w.arrive()
			w.sim.RunTask(q.task)
			if _, ok := q.task.Parked(); ok {
				lat := rapid.SampledFrom(latencies).Draw(rt, "latency")
				if lat > 30*time.Minute {
					w.r.Probe("response-after-more-than-an-hour")
				}
				w.advance(lat)
				w.complete(q, rapid.SampledFrom(statuses).Draw(rt, "status"))
				if !cfg.fine {
					w.sim.Quiesce()
				}
			}
		case "complete":
			q := pk[rapid.IntRange(0, len(pk)-1).Draw(rt, "which")]
			w.complete(q, rapid.SampledFrom(statuses).Draw(rt, "status"))
			if !cfg.fine {
				w.sim.Quiesce()
			}
		case "advance":
			if longCycles && rapid.Bool().Draw(rt, "long") {
				w.advance(time.Duration(rapid.IntRange(3, 25).Draw(rt, "adv-long-s")) * time.Second)
			} else if rapid.Bool().Draw(rt, "around") {
				w.advance(w.drawAdvance(rt) % (4 * time.Second))
			} else {
				w.advance(time.Duration(rapid.IntRange(1, 1500).Draw(rt, "adv-ms")) * time.Millisecond)
			}
		case "step":
			n := rapid.IntRange(1, 10).Draw(rt, "steps")
			for k := 0; k < n && w.sim.StepChosen(); k++ {
			}
		}
		w.check()
	}
	for {
		w.sim.Quiesce()
		w.check()
		pk := w.parked()
		if len(pk) == 0 {
			break
		}
		w.complete(pk[0], 200)
	}

	// side effects: exactly once per transition (all side-effect tasks have run: the simulation is quiescent)
	res := w.replayModel()
	if w.onTripped.n != res.tripsSeen {
		r.Fail("side-effect-count", "on-tripped side effect ran %d times for %d transitions into tripped [%s]", w.onTripped.n, res.tripsSeen, cfg.expr)
	}
	if w.onStandby.n != res.standbySeen {
		r.Fail("side-effect-count", "on-standby side effect ran %d times for %d transitions into standby [%s]", w.onStandby.n, res.standbySeen, cfg.expr)
	}

	// condition oracle (coarse mode only: Record and the check of one completion are then one atomic unit)
	evals, definite, unknown, truncated := 0, 0, 0, false
	if !cfg.fine {
		// completions that went through the handler, in order of completion
		var comps []*cbReq
		for _, q := range w.reqs {
			if q.outcome == "handler" {
				comps = append(comps, q)
			}
		}
		sort.Slice(comps, func(i, j int) bool { return comps[i].exitSeq < comps[j].exitSeq })
		var recorded []response
		var nextCheck time.Duration = -1 // evaluation happens at the first completion strictly after this
		for _, q := range comps {
			now := w.stepTime[q.exitSeq]
			status := q.status
			if status == 0 {
				status = 200
			}
			recorded = append(recorded, response{t: now, status: status, latency: now - w.stepTime[q.enterSeq]})
			// did this completion trip the breaker? (its steps are exitSeq..doneSeq)
			tripped := false
			stateBefore := w.obs[q.exitSeq-1]
			for s := q.exitSeq; s <= q.doneSeq && int(s) < len(w.obs); s++ {
				if w.obs[s] == stTripped && w.obs[s-1] != stTripped {
					tripped = true
				}
			}
			if nextCheck >= 0 && now < nextCheck {
				if tripped {
					r.Fail("early-evaluation", "completion at t=%v tripped the breaker although the previous evaluation was at %v and the check period is %v [%s]",
						now, nextCheck-cfg.checkPeriod, cfg.checkPeriod, cfg.expr)
				}
				continue
			}
			if nextCheck >= 0 && now == nextCheck {
				// exactly on the boundary: the statement does not say whether this completion evaluates
				if !tripped {
					truncated = true
					break
				}
			}
			evals++
			nextCheck = now + cfg.checkPeriod
			if stateBefore == stTripped {
				if tripped {
					r.Fail("harness", "tripped from tripped?")
				}
				continue
			}
			want := evalWindow(e, recorded, now, window)
			switch want {
			case triUnknown:
				unknown++
				r.Inconclusive()
			case triTrue:
				definite++
				if !tripped {
					r.Tracef("recorded since last trip: %v", recorded)
					r.Fail("missed-trip", "evaluation at t=%v (state %s): condition %q is true over the %d responses recorded since the last trip, but the breaker did not trip",
						now, stateBefore, cfg.expr, len(recorded))
				}
			case triFalse:
				definite++
				if tripped {
					r.Tracef("recorded since last trip: %v", recorded)
					r.Fail("spurious-trip", "evaluation at t=%v (state %s): condition %q is false over the %d responses recorded since the last trip, but the breaker tripped",
						now, stateBefore, cfg.expr, len(recorded))
				}
			}
			if tripped {
				recorded = nil // tripping clears the metrics
			}
		}
	}
	r.FromSim(w.sim)
	if definite >= 1 && res.tripsSeen >= 1 {
		r.Nontrivial()
	}
	r.ProbeN("evaluations", evals)
	r.ProbeN("definite-evaluations", definite)
	r.ProbeN("unknown-evaluations", unknown)
	r.ProbeN("trips", res.tripsSeen)
	r.ProbeN("back-to-standby", res.standbySeen)
	r.ProbeN("trip-with-requests-in-flight", w.tripWithInFlight)
	if truncated {
		r.Probe("truncated-at-check-boundary")
	}
	if cfg.fine {
		r.Probe("fine-mode-run(side-effects-only)")
	}
	r.Sample(func() any { return w.summary() })
}
